/* jwt.c refers to jwt_ops (sign/verify dispatch); the import harness never calls through it */
#include "vf.h"
struct jwt_crypto_ops *jwt_ops;
