/* M2 - model of the part of jansson 2.14 that libjwt and its tools call.
 *
 * Containers follow the jansson manual (see DESIGN.md §3, M2); parsers are NOT modelled, they are
 * havocked by the harness-supplied vf_parse(); json_dumps returns an arbitrary NUL-free text and
 * reports the dumped tree to the harness-supplied vf_dump_hook().
 * Objects are slot-addressed: slot k keeps its key text whether or not a value is present, so a
 * lookup with a literal key on a havocked object folds to a constant slot during symbolic
 * execution.  Capacities (VJ_MAXM members/elements, VJ_KLEN key bytes, VJ_SLEN string bytes) are
 * bounds of the encoding: exceeding one is a failed "bound:" property, never a silent pass.
 * Deletion/copy are written depth-indexed (no recursion) for trees of depth <= 2 below the root.
 */
#include <stdlib.h>
#include <string.h>
#include <stdio.h>
#include "vf.h"

long vj_live;
unsigned vj_parse_calls;
unsigned vj_dump_calls;

static json_malloc_t vj_malloc_fn;
static json_free_t vj_free_fn;

void json_set_alloc_funcs(json_malloc_t malloc_fn, json_free_t free_fn)
{
	vj_malloc_fn = malloc_fn;
	vj_free_fn = free_fn;
}

void json_get_alloc_funcs(json_malloc_t *malloc_fn, json_free_t *free_fn)
{
	if (malloc_fn)
		*malloc_fn = vj_malloc_fn;
	if (free_fn)
		*free_fn = vj_free_fn;
}

/* one jansson-internal allocation: consumes an allocation index only when libjwt has routed
 * jansson through its allocator (jwt_set_alloc -> json_set_alloc_funcs) */
static int vj_tick(void)
{
	if (vj_malloc_fn)
		return vf_tick();
	return 1;
}

vj_t *vj_new(json_type t)
{
	vj_t *v;
	unsigned k;

	if (!vj_tick())
		return NULL;
	v = malloc(sizeof(vj_t));
	__CPROVER_assume(v != NULL);
	v->j.type = t;
	v->j.refcount = 1;
	v->ival = 0;
	v->n = 0;
	v->nk = 0;
	for (k = 0; k < VJ_MAXM; k++) {
		v->val[k] = NULL;
		v->key[k][0] = '\0';
	}
	v->s[0] = '\0';
	vj_live++;
	return v;
}

static void vj_release(vj_t *v)
{
	vj_live--;
#ifndef VF_FREE_NOOP
	free(v);
#endif
}

/* ---- deletion, depth-indexed: level 0 = leaf (children ignored: none by construction) ---- */
static void vj_del0(vj_t *v)
{
	VF_BOUND(v->nk == 0, "JSON tree deeper than the model's depth-indexed delete (VJ_DEPTH)");
	vj_release(v);
}

#define VJ_DECREF(fn, c) do { vj_t *c_ = (c); \
	if (c_ && c_->j.refcount != (size_t)-1 && --c_->j.refcount == 0) fn(c_); } while (0)

static void vj_del1(vj_t *v)
{
	unsigned k;
	if (v->j.type == JSON_OBJECT || v->j.type == JSON_ARRAY)
		for (k = 0; k < VJ_MAXM; k++)
			VJ_DECREF(vj_del0, v->val[k]);
	vj_release(v);
}

static void vj_del2(vj_t *v)
{
	unsigned k;
	if (v->j.type == JSON_OBJECT || v->j.type == JSON_ARRAY)
		for (k = 0; k < VJ_MAXM; k++)
			VJ_DECREF(vj_del1, v->val[k]);
	vj_release(v);
}

#ifndef VJ_DEPTH
#define VJ_DEPTH 3          /* maximal depth of any tree below its root */
#endif
#if VJ_DEPTH <= 1
#define VJ_DEL_CHILD vj_del0
#define VJ_COPY_ROOT vj_copy1
#elif VJ_DEPTH == 2
#define VJ_DEL_CHILD vj_del1
#define VJ_COPY_ROOT vj_copy2
#else
#define VJ_DEL_CHILD vj_del2
#define VJ_COPY_ROOT vj_copy3
#endif

void json_delete(json_t *json)
{
	vj_t *v = VJ(json);
	unsigned k;

	if (!v)
		return;
	if (v->j.type == JSON_OBJECT || v->j.type == JSON_ARRAY)
		for (k = 0; k < VJ_MAXM; k++)
			VJ_DECREF(VJ_DEL_CHILD, v->val[k]);
	vj_release(v);
}

/* ---- constructors ---- */
json_t *json_object(void)
{
	vj_t *v = vj_new(JSON_OBJECT);
	return v ? &v->j : NULL;
}

json_t *json_array(void)
{
	vj_t *v = vj_new(JSON_ARRAY);
	return v ? &v->j : NULL;
}

json_t *json_string(const char *value)
{
	vj_t *v;
	size_t i, len;
	_Bool high = 0;

	if (!value)
		return NULL;
	len = strlen(value);
	VF_BOUND(len <= VJ_SLEN, "string longer than VJ_SLEN given to json_string");
	for (i = 0; i < VJ_SLEN; i++)
		if (i < len && ((unsigned char)value[i]) >= 0x80)
			high = 1;
	/* jansson refuses text that is not valid UTF-8; pure ASCII is always accepted */
	if (high && nondet_bool())
		return NULL;
	v = vj_new(JSON_STRING);
	if (!v)
		return NULL;
	for (i = 0; i <= VJ_SLEN; i++)
		v->s[i] = (i < len) ? value[i] : '\0';
	return &v->j;
}

json_t *json_integer(json_int_t value)
{
	vj_t *v = vj_new(JSON_INTEGER);
	if (!v)
		return NULL;
	v->ival = value;
	return &v->j;
}

static vj_t vj_true_s = { { JSON_TRUE, (size_t)-1 } };
static vj_t vj_false_s = { { JSON_FALSE, (size_t)-1 } };
static vj_t vj_null_s = { { JSON_NULL, (size_t)-1 } };

json_t *json_true(void) { return &vj_true_s.j; }
json_t *json_false(void) { return &vj_false_s.j; }
json_t *json_null(void) { return &vj_null_s.j; }

/* ---- accessors ---- */
const char *json_string_value(const json_t *json)
{
	if (!json || json->type != JSON_STRING)
		return NULL;
	return VJ(json)->s;
}

json_int_t json_integer_value(const json_t *json)
{
	if (!json || json->type != JSON_INTEGER)
		return 0;
	return VJ(json)->ival;
}

/* ---- objects ---- */
static int vj_keyeq(const char *slotkey, const char *key)
{
	return strcmp(slotkey, key) == 0;
}

size_t json_object_size(const json_t *object)
{
	unsigned k;
	size_t n = 0;
	if (!object || object->type != JSON_OBJECT)
		return 0;
	for (k = 0; k < VJ_MAXM; k++)
		if (VJ(object)->val[k])
			n++;
	return n;
}

json_t *json_object_get(const json_t *object, const char *key)
{
	vj_t *o = VJ(object);
	unsigned k;

	if (!key || !object || object->type != JSON_OBJECT)
		return NULL;
	for (k = 0; k < VJ_MAXM; k++)
		if (o->val[k] && vj_keyeq(o->key[k], key))
			return &o->val[k]->j;
	return NULL;
}

int json_object_set_new(json_t *object, const char *key, json_t *value)
{
	vj_t *o = VJ(object);
	unsigned k;
	size_t klen;

	if (!value)
		return -1;
	if (!key || !object || object->type != JSON_OBJECT || object == value) {
		json_decref(value);
		return -1;
	}
	/* same key already there (present or a vacated slot): reuse the slot */
	for (k = 0; k < VJ_MAXM; k++) {
		if (o->val[k] && vj_keyeq(o->key[k], key)) {
			json_decref(&o->val[k]->j);
			o->val[k] = VJ(value);
			return 0;
		}
	}
	/* a new key needs a hashtable pair: may fail under memory pressure, value is consumed */
	if (!vj_tick()) {
		json_decref(value);
		return -1;
	}
	for (k = 0; k < VJ_MAXM; k++) {
		if (!o->val[k] && vj_keyeq(o->key[k], key)) {
			o->val[k] = VJ(value);
			o->nk++;
			return 0;
		}
	}
	klen = strlen(key);
	VF_BOUND(klen <= VJ_KLEN, "key longer than VJ_KLEN");
	for (k = 0; k < VJ_MAXM; k++) {
		if (!o->val[k]) {
			size_t i;
			for (i = 0; i <= VJ_KLEN; i++)
				o->key[k][i] = (i < klen) ? key[i] : '\0';
			o->val[k] = VJ(value);
			o->nk++;
			return 0;
		}
	}
	VF_BOUND(0, "object capacity VJ_MAXM exceeded");
	return -1;
}

int json_object_del(json_t *object, const char *key)
{
	vj_t *o = VJ(object);
	unsigned k;

	if (!key || !object || object->type != JSON_OBJECT)
		return -1;
	for (k = 0; k < VJ_MAXM; k++) {
		if (o->val[k] && vj_keyeq(o->key[k], key)) {
			json_decref(&o->val[k]->j);
			o->val[k] = NULL;
			o->nk--;
			return 0;
		}
	}
	return -1;
}

int json_object_clear(json_t *object)
{
	vj_t *o = VJ(object);
	unsigned k;

	if (!object || object->type != JSON_OBJECT)
		return -1;
	for (k = 0; k < VJ_MAXM; k++) {
		if (o->val[k]) {
			json_decref(&o->val[k]->j);
			o->val[k] = NULL;
		}
	}
	o->nk = 0;
	return 0;
}

int json_object_update(json_t *object, json_t *other)
{
	unsigned k;

	if (!object || object->type != JSON_OBJECT || !other || other->type != JSON_OBJECT)
		return -1;
	for (k = 0; k < VJ_MAXM; k++) {
		vj_t *c = VJ(other)->val[k];
		if (c && json_object_set_new(object, VJ(other)->key[k], json_incref(&c->j)))
			return -1;
	}
	return 0;
}

int json_object_update_missing(json_t *object, json_t *other)
{
	unsigned k;

	if (!object || object->type != JSON_OBJECT || !other || other->type != JSON_OBJECT)
		return -1;
	for (k = 0; k < VJ_MAXM; k++) {
		vj_t *c = VJ(other)->val[k];
		if (c && !json_object_get(object, VJ(other)->key[k]))
			json_object_set_new(object, VJ(other)->key[k], json_incref(&c->j));
	}
	return 0;
}

/* ---- arrays ---- */
size_t json_array_size(const json_t *array)
{
	if (!array || array->type != JSON_ARRAY)
		return 0;
	return VJ(array)->n;
}

json_t *json_array_get(const json_t *array, size_t index)
{
	vj_t *a = VJ(array);
	if (!array || array->type != JSON_ARRAY || index >= a->n)
		return NULL;
	VF_BOUND(index < VJ_MAXM, "array index beyond VJ_MAXM");
	return a->val[index] ? &a->val[index]->j : NULL;
}

int json_array_append_new(json_t *array, json_t *value)
{
	vj_t *a = VJ(array);

	if (!value)
		return -1;
	if (!array || array->type != JSON_ARRAY || array == value) {
		json_decref(value);
		return -1;
	}
	if (!vj_tick()) {
		json_decref(value);
		return -1;
	}
	VF_BOUND(a->n < VJ_MAXM, "array capacity VJ_MAXM exceeded");
	a->val[a->n++] = VJ(value);
	a->nk++;
	return 0;
}

/* ---- deep copy, depth-indexed ---- */
static vj_t *vj_copy_node(const vj_t *s)
{
	vj_t *d;
	unsigned k, i;

	if (s->j.type == JSON_TRUE || s->j.type == JSON_FALSE || s->j.type == JSON_NULL) {
		if (s->j.refcount == (size_t)-1)
			return (vj_t *)s;   /* singletons are shared, as in jansson */
	}
	d = vj_new(s->j.type);
	if (!d)
		return NULL;
	d->ival = s->ival;
	d->n = s->n;
	d->nk = s->nk;
	for (i = 0; i <= VJ_SLEN; i++)
		d->s[i] = s->s[i];
	for (k = 0; k < VJ_MAXM; k++)
		for (i = 0; i <= VJ_KLEN; i++)
			d->key[k][i] = s->key[k][i];
	return d;
}

static vj_t *vj_copy0(const vj_t *s)
{
	return vj_copy_node(s);
}

#define VJ_COPY_BODY(child_copy, child_del)                                               \
	vj_t *d = vj_copy_node(s);                                                         \
	unsigned k;                                                                        \
	if (!d || d == s)                                                                  \
		return d;                                                                  \
	if (s->j.type == JSON_OBJECT || s->j.type == JSON_ARRAY) {                         \
		for (k = 0; k < VJ_MAXM; k++) {                                            \
			if (s->val[k]) {                                                   \
				d->val[k] = child_copy(s->val[k]);                         \
				if (!d->val[k]) { /* out of memory: jansson unwinds */    \
					unsigned q;                                        \
					for (q = 0; q < k; q++)                            \
						VJ_DECREF(child_del, d->val[q]);           \
					vj_release(d);                                     \
					return NULL;                                       \
				}                                                          \
			}                                                                  \
		}                                                                          \
	}                                                                                  \
	return d;

static vj_t *vj_copy1(const vj_t *s) { VJ_COPY_BODY(vj_copy0, vj_del0) }
static vj_t *vj_copy2(const vj_t *s) { VJ_COPY_BODY(vj_copy1, vj_del1) }
static vj_t *vj_copy3(const vj_t *s) { VJ_COPY_BODY(vj_copy2, vj_del2) }

/* harness helper: clone of a tree whose members are scalars or empty containers */
json_t *vj_clone(const json_t *value)
{
	vj_t *d;
	if (!value)
		return NULL;
	d = vj_copy1(VJ(value));
	return d ? &d->j : NULL;
}

json_t *json_deep_copy(const json_t *value)
{
	vj_t *d;
	if (!value)
		return NULL;
	d = VJ_COPY_ROOT(VJ(value));
	return d ? &d->j : NULL;
}

/* ---- reference deep equality (used by harnesses only) ---- */
static int vj_eq_node(const vj_t *a, const vj_t *b)
{
	unsigned i;
	if (a->j.type != b->j.type)
		return 0;
	if (a->j.type == JSON_INTEGER)
		return a->ival == b->ival;
	if (a->j.type == JSON_STRING) {
		for (i = 0; i <= VJ_SLEN; i++) {
			if (a->s[i] != b->s[i])
				return 0;
			if (!a->s[i])
				break;
		}
		return 1;
	}
	return 1;
}

static int vj_eq0(const vj_t *a, const vj_t *b) { return vj_eq_node(a, b); }

static int vj_keys_same(const char *x, const char *y)
{
	unsigned i;
	for (i = 0; i <= VJ_KLEN; i++) {
		if (x[i] != y[i])
			return 0;
		if (!x[i])
			break;
	}
	return 1;
}

#define VJ_EQ_BODY(child_eq)                                                              \
	unsigned k, q;                                                                     \
	if (!vj_eq_node(a, b))                                                             \
		return 0;                                                                  \
	if (a->j.type == JSON_ARRAY) {                                                     \
		if (a->n != b->n)                                                          \
			return 0;                                                          \
		for (k = 0; k < VJ_MAXM; k++)                                              \
			if (k < a->n && !child_eq(a->val[k], b->val[k]))                   \
				return 0;                                                  \
		return 1;                                                                  \
	}                                                                                  \
	if (a->j.type == JSON_OBJECT) {                                                    \
		for (k = 0; k < VJ_MAXM; k++) {                                            \
			if (a->val[k]) {                                                   \
				int f = 0;                                                 \
				for (q = 0; q < VJ_MAXM; q++)                              \
					if (b->val[q] && vj_keys_same(a->key[k], b->key[q]) && \
					    child_eq(a->val[k], b->val[q]))                \
						f = 1;                                     \
				if (!f)                                                    \
					return 0;                                          \
			}                                                                  \
		}                                                                          \
		for (q = 0; q < VJ_MAXM; q++) {                                            \
			if (b->val[q]) {                                                   \
				int f = 0;                                                 \
				for (k = 0; k < VJ_MAXM; k++)                              \
					if (a->val[k] && vj_keys_same(a->key[k], b->key[q])) \
						f = 1;                                     \
				if (!f)                                                    \
					return 0;                                          \
			}                                                                  \
		}                                                                          \
	}                                                                                  \
	return 1;

static int vj_eq1(const vj_t *a, const vj_t *b) { VJ_EQ_BODY(vj_eq0) }
static int vj_eq2(const vj_t *a, const vj_t *b) { VJ_EQ_BODY(vj_eq1) }

int vj_equal(const json_t *a, const json_t *b)
{
	if (!a || !b)
		return a == b;
	return vj_eq2(VJ(a), VJ(b));
}

/* ---- havoc helpers ---- */
static void vj_havoc_payload(vj_t *v)
{
	unsigned i;
	v->ival = nondet_llong();
	for (i = 0; i < VJ_SLEN; i++)
		v->s[i] = nondet_char();
	v->s[VJ_SLEN] = '\0';
}

static json_type vj_nondet_type(void)
{
	unsigned t = nondet_uint();
	__CPROVER_assume(t <= JSON_NULL);
	return (json_type)t;
}

/* any JSON type; a container comes back empty (its content is never inspected by the caller) */
json_t *vj_havoc_scalar_or_empty(void)
{
	vj_t *v = malloc(sizeof(vj_t));
	unsigned k;

	__CPROVER_assume(v != NULL);
	v->j.type = vj_nondet_type();
	v->j.refcount = 1;
	v->n = 0;
	v->nk = 0;
	for (k = 0; k < VJ_MAXM; k++) {
		v->val[k] = NULL;
		v->key[k][0] = '\0';
	}
	vj_havoc_payload(v);
	vj_live++;
	return &v->j;
}

#ifndef VJ_NESTM
#define VJ_NESTM 2
#endif

json_t *vj_havoc_value(int depth)
{
	vj_t *v = VJ(vj_havoc_scalar_or_empty());
	unsigned k;

	if (depth <= 0)
		return &v->j;
	/* nested container: up to VJ_NESTM members/elements, keys "o0","o1",... */
	{
		unsigned n = nondet_uint();
		__CPROVER_assume(n <= VJ_NESTM && n <= VJ_MAXM);
		for (k = 0; k < VJ_NESTM && k < VJ_MAXM; k++) {
			vj_t *c = VJ(vj_havoc_value(depth - 1));
			v->key[k][0] = 'o';
			v->key[k][1] = '0' + k;
			v->key[k][2] = '\0';
			if ((v->j.type == JSON_OBJECT && nondet_bool()) ||
			    (v->j.type == JSON_ARRAY && k < n)) {
				v->val[k] = c;
				v->nk++;
			} else {
				/* not attached: hand the node back */
				vj_live--;
#ifndef VF_FREE_NOOP
				free(c);
#endif
			}
		}
		if (v->j.type == JSON_ARRAY)
			v->n = n;
	}
	return &v->j;
}

/* object whose slot k carries alpha[k] with a symbolic presence bit and an arbitrary value */
json_t *vj_havoc_object(const char *const *alpha, unsigned nalpha, int depth)
{
	vj_t *o = malloc(sizeof(vj_t));
	unsigned k;

	__CPROVER_assume(o != NULL);
	o->j.type = JSON_OBJECT;
	o->j.refcount = 1;
	o->ival = 0;
	o->n = 0;
	o->nk = 0;
	o->s[0] = '\0';
	vj_live++;
	VF_BOUND(nalpha <= VJ_MAXM, "alphabet larger than VJ_MAXM");
	for (k = 0; k < VJ_MAXM; k++) {
		o->val[k] = NULL;
		o->key[k][0] = '\0';
		if (k < nalpha) {
			strcpy(o->key[k], alpha[k]);
			if (nondet_bool()) {
				o->val[k] = VJ(vj_havoc_value(depth));
				o->nk++;
			}
		}
	}
	return &o->j;
}

json_t *vj_havoc_array(unsigned maxn, int depth)
{
	vj_t *a = malloc(sizeof(vj_t));
	unsigned k, n = nondet_uint();

	__CPROVER_assume(a != NULL);
	__CPROVER_assume(n <= maxn && n <= VJ_MAXM);
	a->j.type = JSON_ARRAY;
	a->j.refcount = 1;
	a->ival = 0;
	a->s[0] = '\0';
	a->n = n;
	a->nk = n;
	vj_live++;
	for (k = 0; k < VJ_MAXM; k++) {
		a->val[k] = NULL;
		a->key[k][0] = '\0';
		if (k < n)
			a->val[k] = VJ(vj_havoc_value(depth));
	}
	return &a->j;
}

/* ---- parsers: havocked by the harness ---- */
static void vj_fill_error(json_error_t *error)
{
	if (error) {
		error->line = nondet_int();
		error->column = nondet_int();
		error->position = nondet_int();
		/* jansson always NUL-terminates both; content arbitrary but text non-empty on error */
		error->source[0] = nondet_char();
		error->source[1] = '\0';
		error->text[0] = nondet_char();
		__CPROVER_assume(error->text[0] != '\0');
		error->text[1] = '\0';
	}
}

json_t *json_loads(const char *input, size_t flags, json_error_t *error)
{
	json_t *r;
	if (!input) {
		vj_fill_error(error);
		return NULL;
	}
	r = vf_parse(vj_parse_calls++, input, strlen(input), flags);
	if (!r)
		vj_fill_error(error);
	return r;
}

json_t *json_loadb(const char *buffer, size_t buflen, size_t flags, json_error_t *error)
{
	json_t *r;
	if (!buffer) {
		vj_fill_error(error);
		return NULL;
	}
	r = vf_parse(vj_parse_calls++, buffer, buflen, flags);
	if (!r)
		vj_fill_error(error);
	return r;
}

json_t *json_loadf(FILE *input, size_t flags, json_error_t *error)
{
	json_t *r;
	if (!input) {
		vj_fill_error(error);
		return NULL;
	}
	r = vf_parse(vj_parse_calls++, NULL, 0, flags);
	if (!r)
		vj_fill_error(error);
	return r;
}

json_t *json_load_file(const char *path, size_t flags, json_error_t *error)
{
	json_t *r;
	if (!path) {
		vj_fill_error(error);
		return NULL;
	}
	r = vf_parse(vj_parse_calls++, NULL, 0, flags);
	if (!r)
		vj_fill_error(error);
	return r;
}

/* ---- printer: arbitrary NUL-free text, allocated with jansson's allocator ---- */
char *json_dumps(const json_t *json, size_t flags)
{
	size_t n = nondet_size_t(), i;
	char *p;

	if (!json)
		return NULL;
	__CPROVER_assume(n >= 1 && n <= VJ_DUMPLEN);
	if (vj_malloc_fn)
		p = vj_malloc_fn(n + 1);
	else {
		p = malloc(VJ_DUMPLEN + 1);
		__CPROVER_assume(p != NULL);
	}
	if (!p)
		return NULL;
	for (i = 0; i < VJ_DUMPLEN; i++) {
		if (i < n) {
			p[i] = nondet_char();
			__CPROVER_assume(p[i] != '\0');
		}
	}
	p[n] = '\0';
	vf_dump_hook(vj_dump_calls++, json, flags, p);
	return p;
}
