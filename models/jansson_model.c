/* M2 - model of the part of jansson 2.14 that libjwt and its tools call.
 *
 * Containers follow the jansson manual (see DESIGN.md §3, M2); parsers are NOT modelled, they are
 * havocked by the harness-supplied vf_parse(); json_dumps returns an arbitrary NUL-free text and
 * reports the dumped tree to the harness-supplied vf_dump_hook().
 * Objects are slot-addressed: slot k keeps its key text whether or not a value is present, so a
 * lookup with a literal key on a havocked object folds to a constant slot during symbolic
 * execution.  Capacities (VJ_MAXM members/elements, VJ_KLEN key bytes, VJ_SLEN string bytes) are
 * bounds of the encoding: exceeding one is a failed "bound:" property, never a silent pass.
 *
 * Lifetime is flattened (no recursion, no nest): every node carries the WEIGHT of its subtree
 * (number of nodes).  json_delete(v) marks v and its directly owned children dead and subtracts
 * their weights from the live counter vj_live; storage of JSON nodes is never handed back to
 * CBMC's free() (a use of a released ROOT or first-level value through the API is still caught:
 * every API entry asserts the node is not dead).  json_deep_copy makes real copies of the root
 * and of its first-level members and shares deeper levels (accounted in vj_live as if copied);
 * mutation is only allowed on nodes that are not attached below another node (asserted as a
 * "bound:"), which is all libjwt ever does.
 */
#include <stdlib.h>
#include <string.h>
#include <stdio.h>
#include "vf.h"

long vj_live;
unsigned vj_parse_calls;
unsigned vj_dump_calls;
size_t vj_parse_flags;

static json_malloc_t vj_malloc_fn;
static json_free_t vj_free_fn;

void json_set_alloc_funcs(json_malloc_t malloc_fn, json_free_t free_fn)
{
	vj_malloc_fn = malloc_fn;
	vj_free_fn = free_fn;
}

void json_get_alloc_funcs(json_malloc_t *malloc_fn, json_free_t *free_fn)
{
	if (malloc_fn)
		*malloc_fn = vj_malloc_fn;
	if (free_fn)
		*free_fn = vj_free_fn;
}

/* one jansson-internal allocation: consumes an allocation index only when libjwt has routed
 * jansson through its allocator (jwt_set_alloc -> json_set_alloc_funcs) */
static int vj_tick(void)
{
	if (vj_malloc_fn)
		return vf_tick();
	return 1;
}

vj_t *vj_new(json_type t)
{
	vj_t *v;
	unsigned k;

	if (!vj_tick())
		return NULL;
	v = malloc(sizeof(vj_t));
	__CPROVER_assume(v != NULL);
	v->j.type = t;
	v->j.refcount = 1;
	v->ival = 0;
	v->rval = 0.0;
	v->n = 0;
	v->nk = 0;
	v->weight = 1;
	v->dead = 0;
	v->attached = 0;
	v->nul_inside = 0;
	for (k = 0; k < VJ_MAXM; k++) {
		v->val[k] = NULL;
		v->key[k][0] = '\0';
	}
	v->s[0] = '\0';
	vj_live++;
	return v;
}

/* use-after-release / double-release checks on JSON values: enabled in the memory-safety
 * harnesses (-DVJ_CHECK_DEAD); verdict harnesses leave them out to keep the query small */
#ifdef VJ_CHECK_DEAD
#define VJ_ALIVE(j_) __CPROVER_assert(!(j_) || !VJ(j_)->dead, "use of a released JSON value (use after free inside jansson)")
#else
#define VJ_ALIVE(j_) ((void)0)
#endif
#define VJ_ROOT(j_) VF_BOUND(!VJ(j_)->attached, "mutation of a JSON container nested inside another one")

void json_delete(json_t *json)
{
	vj_t *v = VJ(json);
	unsigned k, released;

	if (!v)
		return;
#ifdef VJ_CHECK_DEAD
	__CPROVER_assert(!v->dead, "JSON value released twice (double free inside jansson)");
#endif
	v->dead = 1;
	released = 1;
	if (v->j.type == JSON_OBJECT || v->j.type == JSON_ARRAY) {
		for (k = 0; k < VJ_MAXM; k++) {
			vj_t *c = v->val[k];
			if (!c || c->j.refcount == (size_t)-1)
				continue;
			if (c->j.refcount <= 1) {
				c->dead = 1;
				c->j.refcount = 0;
				released += c->weight;
			} else {
				c->j.refcount--;
				c->attached = 0;
			}
		}
	}
	vj_live -= released;
#ifdef VJ_FREE_ROOTS
	/* cheap harnesses: the storage of the value released HERE (the root of this release, not its
	 * members) really goes back to CBMC's heap, so that a second json_decref of the same pointer -
	 * which in the real library reads and writes the refcount of freed memory - is a pointer-check
	 * failure instead of going unnoticed (json_decref is an inline of jansson.h, it cannot assert) */
	free(v);
#endif
}

/* attach value as a member of o (bookkeeping shared by every mutator) */
static void vj_attach(vj_t *o, unsigned k, vj_t *c)
{
	o->val[k] = c;
	o->nk++;
	o->weight += c->weight;
	if (c->j.refcount != (size_t)-1)
		c->attached = 1;
}

void vj_attach_member(vj_t *o, unsigned k, vj_t *c)
{
	vj_attach(o, k, c);
}

/* detach member k of o and drop the reference o held */
static void vj_detach(vj_t *o, unsigned k)
{
	vj_t *c = o->val[k];

	o->val[k] = NULL;
	o->nk--;
	o->weight -= c->weight;
	if (c->j.refcount != (size_t)-1 && c->j.refcount <= 1)
		c->attached = 0;
	json_decref(&c->j);
}

/* ---- constructors ---- */
json_t *json_object(void)
{
	vj_t *v = vj_new(JSON_OBJECT);
	return v ? &v->j : NULL;
}

json_t *json_array(void)
{
	vj_t *v = vj_new(JSON_ARRAY);
	return v ? &v->j : NULL;
}

json_t *json_string(const char *value)
{
	vj_t *v;
	size_t i, len;
	_Bool high = 0;

	if (!value)
		return NULL;
	len = strlen(value);
	VF_BOUND(len <= VJ_SLEN, "string longer than VJ_SLEN given to json_string");
	for (i = 0; i < VJ_SLEN; i++)
		if (i < len && ((unsigned char)value[i]) >= 0x80)
			high = 1;
	/* jansson refuses text that is not valid UTF-8; pure ASCII is always accepted */
	if (high && nondet_bool())
		return NULL;
	v = vj_new(JSON_STRING);
	if (!v)
		return NULL;
	for (i = 0; i <= VJ_SLEN; i++)
		v->s[i] = (i < len) ? value[i] : '\0';
	return &v->j;
}

json_t *json_integer(json_int_t value)
{
	vj_t *v = vj_new(JSON_INTEGER);
	if (!v)
		return NULL;
	v->ival = value;
	return &v->j;
}

static vj_t vj_true_s = { { JSON_TRUE, (size_t)-1 }, .weight = 0 };
static vj_t vj_false_s = { { JSON_FALSE, (size_t)-1 }, .weight = 0 };
static vj_t vj_null_s = { { JSON_NULL, (size_t)-1 }, .weight = 0 };

json_t *json_true(void) { return &vj_true_s.j; }
json_t *json_false(void) { return &vj_false_s.j; }
json_t *json_null(void) { return &vj_null_s.j; }

/* ---- accessors ---- */
const char *json_string_value(const json_t *json)
{
	VJ_ALIVE(json);
	if (!json || json->type != JSON_STRING)
		return NULL;
	return VJ(json)->s;
}

json_int_t json_integer_value(const json_t *json)
{
	VJ_ALIVE(json);
	if (!json || json->type != JSON_INTEGER)
		return 0;
	return VJ(json)->ival;
}

/* ---- objects ---- */
static int vj_keyeq(const char *slotkey, const char *key)
{
	return strcmp(slotkey, key) == 0;
}

static int vj_key_high(const char *key)
{
	unsigned i;
	for (i = 0; i < VJ_KLEN; i++) {
		if (!key[i])
			break;
		if (((unsigned char)key[i]) >= 0x80)
			return 1;
	}
	return 0;
}

size_t json_object_size(const json_t *object)
{
	VJ_ALIVE(object);
	if (!object || object->type != JSON_OBJECT)
		return 0;
	return VJ(object)->nk;
}

json_t *json_object_get(const json_t *object, const char *key)
{
	vj_t *o = VJ(object);
	unsigned k;

	VJ_ALIVE(object);
	if (!key || !object || object->type != JSON_OBJECT)
		return NULL;
	for (k = 0; k < VJ_MAXM; k++)
		if (o->val[k] && vj_keyeq(o->key[k], key))
			return &o->val[k]->j;
	return NULL;
}

static int vj_object_set_new(json_t *object, const char *key, json_t *value, int check_root)
{
	vj_t *o = VJ(object);
	unsigned k;
	size_t klen;

	VJ_ALIVE(object);
	VJ_ALIVE(value);
	if (!value)
		return -1;
	if (!key || !object || object->type != JSON_OBJECT || object == value) {
		json_decref(value);
		return -1;
	}
	/* keys must be valid UTF-8 as well */
	if (vj_key_high(key) && nondet_bool()) {
		json_decref(value);
		return -1;
	}
	if (check_root)
		VJ_ROOT(object);
	/* same key already present: the value is replaced in place */
	for (k = 0; k < VJ_MAXM; k++) {
		if (o->val[k] && vj_keyeq(o->key[k], key)) {
			vj_detach(o, k);
			vj_attach(o, k, VJ(value));
			return 0;
		}
	}
	/* a new key needs a hashtable pair: may fail under memory pressure, value is consumed */
	if (!vj_tick()) {
		json_decref(value);
		return -1;
	}
	/* a vacated slot that still carries this key text is reused (keeps lookups foldable) */
	for (k = 0; k < VJ_MAXM; k++) {
		if (!o->val[k] && vj_keyeq(o->key[k], key)) {
			vj_attach(o, k, VJ(value));
			return 0;
		}
	}
	klen = strlen(key);
	VF_BOUND(klen <= VJ_KLEN, "key longer than VJ_KLEN");
	for (k = 0; k < VJ_MAXM; k++) {
		if (!o->val[k]) {
			size_t i;
			for (i = 0; i <= VJ_KLEN; i++)
				o->key[k][i] = (i < klen) ? key[i] : '\0';
			vj_attach(o, k, VJ(value));
			return 0;
		}
	}
	VF_BOUND(0, "object capacity VJ_MAXM exceeded");
	return -1;
}

int json_object_set_new(json_t *object, const char *key, json_t *value)
{
	return vj_object_set_new(object, key, value, 1);
}

int json_object_set_new_nocheck(json_t *object, const char *key, json_t *value)
{
	return vj_object_set_new(object, key, value, 1);
}

int json_object_del(json_t *object, const char *key)
{
	vj_t *o = VJ(object);
	unsigned k;

	VJ_ALIVE(object);
	if (!key || !object || object->type != JSON_OBJECT)
		return -1;
	for (k = 0; k < VJ_MAXM; k++) {
		if (o->val[k] && vj_keyeq(o->key[k], key)) {
			VJ_ROOT(object);
			vj_detach(o, k);
			return 0;
		}
	}
	return -1;
}

int json_object_clear(json_t *object)
{
	vj_t *o = VJ(object);
	unsigned k;

	VJ_ALIVE(object);
	if (!object || object->type != JSON_OBJECT)
		return -1;
	VJ_ROOT(object);
	for (k = 0; k < VJ_MAXM; k++)
		if (o->val[k])
			vj_detach(o, k);
	return 0;
}

int json_object_update(json_t *object, json_t *other)
{
	unsigned k;

	VJ_ALIVE(object);
	VJ_ALIVE(other);
	if (!object || object->type != JSON_OBJECT || !other || other->type != JSON_OBJECT)
		return -1;
	for (k = 0; k < VJ_MAXM; k++) {
		vj_t *c = VJ(other)->val[k];
		if (c && json_object_set_new(object, VJ(other)->key[k], json_incref(&c->j)))
			return -1;
	}
	return 0;
}

int json_object_update_missing(json_t *object, json_t *other)
{
	unsigned k;

	VJ_ALIVE(object);
	VJ_ALIVE(other);
	if (!object || object->type != JSON_OBJECT || !other || other->type != JSON_OBJECT)
		return -1;
	for (k = 0; k < VJ_MAXM; k++) {
		vj_t *c = VJ(other)->val[k];
		if (c && !json_object_get(object, VJ(other)->key[k]))
			json_object_set_new(object, VJ(other)->key[k], json_incref(&c->j));
	}
	return 0;
}

/* ---- arrays ---- */
size_t json_array_size(const json_t *array)
{
	VJ_ALIVE(array);
	if (!array || array->type != JSON_ARRAY)
		return 0;
	return VJ(array)->n;
}

json_t *json_array_get(const json_t *array, size_t index)
{
	vj_t *a = VJ(array);
	VJ_ALIVE(array);
	if (!array || array->type != JSON_ARRAY || index >= a->n)
		return NULL;
	VF_BOUND(index < VJ_MAXM, "array index beyond VJ_MAXM");
	return a->val[index] ? &a->val[index]->j : NULL;
}

int json_array_append_new(json_t *array, json_t *value)
{
	vj_t *a = VJ(array);

	VJ_ALIVE(array);
	VJ_ALIVE(value);
	if (!value)
		return -1;
	if (!array || array->type != JSON_ARRAY || array == value) {
		json_decref(value);
		return -1;
	}
	if (!vj_tick()) {
		json_decref(value);
		return -1;
	}
	VJ_ROOT(array);
	VF_BOUND(a->n < VJ_MAXM, "array capacity VJ_MAXM exceeded");
	vj_attach(a, a->n, VJ(value));
	a->n++;
	return 0;
}

/* ---- deep copy: real copies of the root and of its members, deeper levels shared ---- */
static vj_t *vj_copy_node(const vj_t *s)
{
	vj_t *d;
	unsigned k, i;

	if (s->j.refcount == (size_t)-1)
		return (vj_t *)s;           /* singletons are shared, as in jansson */
	d = vj_new(s->j.type);
	if (!d)
		return NULL;
	d->ival = s->ival;
	d->rval = s->rval;
	d->n = s->n;
	d->nk = s->nk;
	d->weight = s->weight;
	d->nul_inside = s->nul_inside;
	for (i = 0; i <= VJ_SLEN; i++)
		d->s[i] = s->s[i];
	for (k = 0; k < VJ_MAXM; k++) {
		d->val[k] = s->val[k];      /* shared below this level */
		for (i = 0; i <= VJ_KLEN; i++)
			d->key[k][i] = s->key[k][i];
	}
	return d;
}

json_t *json_deep_copy(const json_t *value)
{
	const vj_t *s = VJ(value);
	vj_t *d;
	unsigned k;
	long added = 1;

	VJ_ALIVE(value);
	if (!value)
		return NULL;
	d = vj_copy_node(s);
	if (!d || d == s)
		return d ? &d->j : NULL;
	if (s->j.type == JSON_OBJECT || s->j.type == JSON_ARRAY) {
		for (k = 0; k < VJ_MAXM; k++) {
			vj_t *c;
			if (!s->val[k])
				continue;
			c = vj_copy_node(s->val[k]);
			if (!c) {
				/* out of memory: jansson unwinds the partial copy */
				unsigned q;
				for (q = 0; q < k; q++)
					if (s->val[q] && d->val[q]->j.refcount != (size_t)-1)
						d->val[q]->dead = 1;
				d->dead = 1;
				vj_live -= added;
				return NULL;
			}
			d->val[k] = c;
			if (c->j.refcount != (size_t)-1) {
				c->attached = 1;
				/* descendants below the member are shared but accounted as copied */
				vj_live += (long)c->weight - 1;
				added += (long)c->weight;
			}
		}
	}
	return &d->j;
}

json_t *vj_clone(const json_t *value)
{
	return json_deep_copy(value);
}

/* ---- reference deep equality (used by harnesses only) ---- */
static int vj_eq_node(const vj_t *a, const vj_t *b)
{
	unsigned i;
	if (a->j.type != b->j.type)
		return 0;
	if (a->j.type == JSON_INTEGER)
		return a->ival == b->ival;
	if (a->j.type == JSON_REAL)
		return a->rval == b->rval;
	if (a->j.type == JSON_STRING) {
		if (a->nul_inside != b->nul_inside)
			return 0;
		for (i = 0; i <= VJ_SLEN; i++) {
			if (a->s[i] != b->s[i])
				return 0;
			if (!a->s[i])
				break;
		}
		return 1;
	}
	return 1;
}

static int vj_keys_same(const char *x, const char *y)
{
	unsigned i;
	for (i = 0; i <= VJ_KLEN; i++) {
		if (x[i] != y[i])
			return 0;
		if (!x[i])
			break;
	}
	return 1;
}

/* level 0: nodes compared by value, their members by identity (deeper levels are shared by
 * json_deep_copy, and are immutable once attached) */
static int vj_eq0(const vj_t *a, const vj_t *b)
{
	unsigned k;
	if (a == b)
		return 1;
	if (!vj_eq_node(a, b))
		return 0;
	if (a->j.type == JSON_ARRAY || a->j.type == JSON_OBJECT) {
		if (a->n != b->n || a->nk != b->nk)
			return 0;
		for (k = 0; k < VJ_MAXM; k++)
			if (a->val[k] != b->val[k] || (a->val[k] && !vj_keys_same(a->key[k], b->key[k])))
				return 0;
	}
	return 1;
}

#define VJ_EQ_BODY(child_eq)                                                              \
	unsigned k, q;                                                                     \
	if (a == b)                                                                        \
		return 1;                                                                  \
	if (!vj_eq_node(a, b))                                                             \
		return 0;                                                                  \
	if (a->j.type == JSON_ARRAY) {                                                     \
		if (a->n != b->n)                                                          \
			return 0;                                                          \
		for (k = 0; k < VJ_MAXM; k++)                                              \
			if (k < a->n && !child_eq(a->val[k], b->val[k]))                   \
				return 0;                                                  \
		return 1;                                                                  \
	}                                                                                  \
	if (a->j.type == JSON_OBJECT) {                                                    \
		if (a->nk != b->nk)                                                        \
			return 0;                                                          \
		for (k = 0; k < VJ_MAXM; k++) {                                            \
			if (a->val[k]) {                                                   \
				int f = 0;                                                 \
				for (q = 0; q < VJ_MAXM; q++)                              \
					if (b->val[q] && vj_keys_same(a->key[k], b->key[q]) && \
					    child_eq(a->val[k], b->val[q]))                \
						f = 1;                                     \
				if (!f)                                                    \
					return 0;                                          \
			}                                                                  \
		}                                                                          \
	}                                                                                  \
	return 1;

static int vj_eq1(const vj_t *a, const vj_t *b) { VJ_EQ_BODY(vj_eq0) }
static int vj_eq2(const vj_t *a, const vj_t *b) { VJ_EQ_BODY(vj_eq1) }

/* equality of a tree and its copy made by this model (slot positions are preserved by
 * json_deep_copy): linear in the capacity instead of quadratic */
int vj_equal_copy(const json_t *ja, const json_t *jb)
{
	const vj_t *a = VJ(ja), *b = VJ(jb);
	unsigned k;

	if (!a || !b)
		return a == b;
	if (a == b)
		return 1;
	if (!vj_eq_node(a, b))
		return 0;
	if (a->j.type == JSON_ARRAY || a->j.type == JSON_OBJECT) {
		if (a->n != b->n || a->nk != b->nk)
			return 0;
		for (k = 0; k < VJ_MAXM; k++) {
			if ((a->val[k] == NULL) != (b->val[k] == NULL))
				return 0;
			if (a->val[k] && (!vj_keys_same(a->key[k], b->key[k]) || !vj_eq0(a->val[k], b->val[k])))
				return 0;
		}
	}
	return 1;
}

int vj_equal(const json_t *a, const json_t *b)
{
	if (!a || !b)
		return a == b;
	return vj_eq2(VJ(a), VJ(b));
}

/* ---- API that libjwt does not call at the pinned commit ----
 * Modelled (after the jansson 2.14 manual) so that a change which starts to call one of these is
 * analysed with its real semantics - sharing of values between containers included - instead of
 * being cut at a function without a body. */
json_t *json_copy(json_t *json)
{
	vj_t *s = VJ(json), *d;
	unsigned k, i;

	VJ_ALIVE(json);
	if (!json)
		return NULL;
	if (s->j.refcount == (size_t)-1)
		return json;
	if (s->j.type != JSON_OBJECT && s->j.type != JSON_ARRAY) {
		d = vj_copy_node(s);
		return d ? &d->j : NULL;
	}
	/* shallow: a new container whose members are the SAME values (one more reference each) */
	d = vj_new(s->j.type);
	if (!d)
		return NULL;
	for (k = 0; k < VJ_MAXM; k++) {
		for (i = 0; i <= VJ_KLEN; i++)
			d->key[k][i] = s->key[k][i];
		if (s->val[k]) {
			if (!vj_tick()) {
				json_decref(&d->j);
				return NULL;
			}
			vj_attach(d, k, VJ(json_incref(&s->val[k]->j)));
		}
	}
	d->n = s->n;
	return &d->j;
}

int json_integer_set(json_t *integer, json_int_t value)
{
	VJ_ALIVE(integer);
	if (!integer || integer->type != JSON_INTEGER)
		return -1;
	VJ(integer)->ival = value;      /* in place: visible through every container sharing it */
	return 0;
}

/* reals: a value, no arithmetic of its own (NaN and infinities are not JSON and are refused) */
json_t *json_real(double value)
{
	vj_t *v;
	if (__CPROVER_isnand(value) || __CPROVER_isinfd(value))
		return NULL;
	v = vj_new(JSON_REAL);
	if (!v)
		return NULL;
	v->rval = value;
	return &v->j;
}

double json_real_value(const json_t *real)
{
	VJ_ALIVE(real);
	if (!real || real->type != JSON_REAL)
		return 0.0;
	return VJ(real)->rval;
}

int json_real_set(json_t *real, double value)
{
	VJ_ALIVE(real);
	if (!real || real->type != JSON_REAL || __CPROVER_isnand(value) || __CPROVER_isinfd(value))
		return -1;
	VJ(real)->rval = value;
	return 0;
}

/* integer -> double conversion rounds above 2^53, exactly as in C */
double json_number_value(const json_t *json)
{
	VJ_ALIVE(json);
	if (json && json->type == JSON_INTEGER)
		return (double)VJ(json)->ival;
	if (json && json->type == JSON_REAL)
		return VJ(json)->rval;
	return 0.0;
}

int json_string_set(json_t *string, const char *value)
{
	size_t i, len;
	_Bool high = 0;

	VJ_ALIVE(string);
	if (!string || string->type != JSON_STRING || !value)
		return -1;
	len = strlen(value);
	VF_BOUND(len <= VJ_SLEN, "string longer than VJ_SLEN given to json_string_set");
	for (i = 0; i < VJ_SLEN; i++)
		if (i < len && ((unsigned char)value[i]) >= 0x80)
			high = 1;
	if (high && nondet_bool())
		return -1;
	if (!vj_tick())
		return -1;
	for (i = 0; i <= VJ_SLEN; i++)
		VJ(string)->s[i] = (i < len) ? value[i] : '\0';
	return 0;
}

size_t json_string_length(const json_t *string)
{
	VJ_ALIVE(string);
	if (!string || string->type != JSON_STRING)
		return 0;
	if (VJ(string)->nul_inside) {
		size_t n = nondet_size_t();
		__CPROVER_assume(n > strlen(VJ(string)->s) && n <= VJ_SLEN + 8);
		return n;
	}
	return strlen(VJ(string)->s);
}

int json_equal(const json_t *a, const json_t *b)
{
	VJ_ALIVE(a);
	VJ_ALIVE(b);
	if (!a || !b)
		return 0;
	return vj_equal(a, b);
}

int json_object_update_existing(json_t *object, json_t *other)
{
	unsigned k;

	VJ_ALIVE(object);
	VJ_ALIVE(other);
	if (!object || object->type != JSON_OBJECT || !other || other->type != JSON_OBJECT)
		return -1;
	for (k = 0; k < VJ_MAXM; k++) {
		vj_t *c = VJ(other)->val[k];
		if (c && json_object_get(object, VJ(other)->key[k]))
			json_object_set_new(object, VJ(other)->key[k], json_incref(&c->j));
	}
	return 0;
}

/* object-valued members present on both sides are merged member by member (one nested level is
 * modelled; a second level of object-in-object on both sides is a bound of the encoding).
 * The keys of `other` are pairwise distinct, so which of its members meet an object-valued member
 * of `object` can be decided against the state before the first change (pass 1); the changes
 * follow in member order (pass 2).  Same result as jansson's loop, much smaller symbolic state. */
static int vj_merge_member(vj_t *n, unsigned q, const char *key, vj_t *g)
{
	/* same key text already sits in the same slot (a key never occupies two slots) */
	if (vj_keys_same(n->key[q], key)) {
		if (n->val[q]) {
			vj_detach(n, q);
		} else if (!vj_tick()) {
			json_decref(&g->j);
			return -1;
		}
		vj_attach(n, q, g);
		return 0;
	}
	return vj_object_set_new(&n->j, key, &g->j, 0);
}

int json_object_update_recursive(json_t *object, json_t *other)
{
	vj_t *o = VJ(object);
	vj_t *mn[VJ_MAXM];
	unsigned k, j, q;

	VJ_ALIVE(object);
	VJ_ALIVE(other);
	if (!object || object->type != JSON_OBJECT || !other || other->type != JSON_OBJECT)
		return -1;
	for (k = 0; k < VJ_MAXM; k++) {
		vj_t *c = VJ(other)->val[k];
		mn[k] = NULL;
		if (!c || c->j.type != JSON_OBJECT)
			continue;
		for (j = 0; j < VJ_MAXM; j++)
			if (o->val[j] && o->val[j]->j.type == JSON_OBJECT && vj_keyeq(o->key[j], VJ(other)->key[k]))
				mn[k] = o->val[j];
	}
	for (k = 0; k < VJ_MAXM; k++) {
		vj_t *c = VJ(other)->val[k], *n = mn[k];
		if (!c)
			continue;
		if (!n) {
			if (json_object_set_new(object, VJ(other)->key[k], json_incref(&c->j)))
				return -1;
			continue;
		}
		VF_BOUND(n->j.refcount <= 1, "json_object_update_recursive into an object shared by two containers");
		for (q = 0; q < VJ_MAXM; q++) {
			vj_t *g = c->val[q];
			json_t *gc;
			unsigned before = n->weight;
			if (!g)
				continue;
			gc = json_object_get(&n->j, c->key[q]);
			if (gc && gc->type == JSON_OBJECT && g->j.type == JSON_OBJECT) {
				/* second nested level: merging an EMPTY object changes nothing; more is a bound */
				VF_BOUND(g->nk == 0, "json_object_update_recursive deeper than one nested level");
				continue;
			}
			if (vj_merge_member(n, q, c->key[q], VJ(json_incref(&g->j))))
				return -1;
			o->weight += n->weight - before;
		}
	}
	return 0;
}

/* iteration (json_object_foreach): the iterator is the address of the slot's value pointer; the
 * object being walked is remembered, as jansson's iterators are only meaningful with it */
static vj_t *vj_iter_obj;

static void *vj_iter_from(vj_t *o, unsigned from)
{
	unsigned k;
	for (k = 0; k < VJ_MAXM; k++)
		if (k >= from && o->val[k])
			return &o->val[k];
	return NULL;
}

void *json_object_iter(json_t *object)
{
	VJ_ALIVE(object);
	if (!object || object->type != JSON_OBJECT)
		return NULL;
	vj_iter_obj = VJ(object);
	return vj_iter_from(vj_iter_obj, 0);
}

void *json_object_iter_next(json_t *object, void *iter)
{
	vj_t *o = VJ(object);
	if (!object || object->type != JSON_OBJECT || !iter)
		return NULL;
	vj_iter_obj = o;
	return vj_iter_from(o, (unsigned)((vj_t **)iter - o->val) + 1);
}

const char *json_object_iter_key(void *iter)
{
	if (!iter || !vj_iter_obj)
		return NULL;
	return vj_iter_obj->key[(vj_t **)iter - vj_iter_obj->val];
}

json_t *json_object_iter_value(void *iter)
{
	if (!iter)
		return NULL;
	return &(*(vj_t **)iter)->j;
}

void *json_object_key_to_iter(const char *key)
{
	unsigned k;
	if (!key || !vj_iter_obj)
		return NULL;
	for (k = 0; k < VJ_MAXM; k++)
		if (key == vj_iter_obj->key[k])
			return &vj_iter_obj->val[k];
	return NULL;
}

void *json_object_iter_at(json_t *object, const char *key)
{
	vj_t *o = VJ(object);
	unsigned k;
	if (!key || !object || object->type != JSON_OBJECT)
		return NULL;
	vj_iter_obj = o;
	for (k = 0; k < VJ_MAXM; k++)
		if (o->val[k] && vj_keyeq(o->key[k], key))
			return &o->val[k];
	return NULL;
}

int json_array_clear(json_t *array)
{
	vj_t *a = VJ(array);
	unsigned k;

	VJ_ALIVE(array);
	if (!array || array->type != JSON_ARRAY)
		return -1;
	VJ_ROOT(array);
	for (k = 0; k < VJ_MAXM; k++)
		if (a->val[k])
			vj_detach(a, k);
	a->n = 0;
	return 0;
}

/* ---- havoc helpers ---- */
static void vj_havoc_payload(vj_t *v)
{
	unsigned i;
	v->ival = nondet_llong();
	v->rval = nondet_double();
	__CPROVER_assume(!__CPROVER_isnand(v->rval) && !__CPROVER_isinfd(v->rval));   /* JSON has neither */
	for (i = 0; i < VJ_SLEN; i++)
		v->s[i] = nondet_char();
	v->s[VJ_SLEN] = '\0';
	/* without JSON_ALLOW_NUL jansson refuses a document with an escaped U+0000 in a string; with
	 * it, the decoded text may go on after the first NUL */
	v->nul_inside = (vj_parse_flags & JSON_ALLOW_NUL) ? nondet_bool() : 0;
}

static json_type vj_nondet_type(void)
{
	unsigned t = nondet_uint();
	__CPROVER_assume(t <= JSON_NULL);
	return (json_type)t;
}

static vj_t *vj_raw(json_type t)
{
	vj_t *v = malloc(sizeof(vj_t));
	unsigned k;

	__CPROVER_assume(v != NULL);
	v->j.type = t;
	v->j.refcount = 1;
	v->ival = 0;
	v->rval = 0.0;
	v->n = 0;
	v->nk = 0;
	v->weight = 1;
	v->dead = 0;
	v->attached = 0;
	v->nul_inside = 0;
	for (k = 0; k < VJ_MAXM; k++) {
		v->val[k] = NULL;
		v->key[k][0] = '\0';
	}
	v->s[0] = '\0';
	vj_live++;
	return v;
}

/* any JSON type; a container comes back empty (its content is never inspected by the caller) */
json_t *vj_havoc_scalar_or_empty(void)
{
	vj_t *v = vj_raw(vj_nondet_type());
	vj_havoc_payload(v);
	return &v->j;
}

#ifndef VJ_NESTM
#define VJ_NESTM 2
#endif

json_t *vj_havoc_value(int depth)
{
	vj_t *v = VJ(vj_havoc_scalar_or_empty());
	unsigned k;

	if (depth <= 0)
		return &v->j;
	/* nested container: up to VJ_NESTM members/elements, keys "o0","o1",... */
	{
		unsigned n = nondet_uint();
		__CPROVER_assume(n <= VJ_NESTM && n <= VJ_MAXM);
		for (k = 0; k < VJ_NESTM && k < VJ_MAXM; k++) {
			vj_t *c = VJ(vj_havoc_value(depth - 1));
			v->key[k][0] = 'o';
			v->key[k][1] = '0' + k;
			v->key[k][2] = '\0';
			if ((v->j.type == JSON_OBJECT && nondet_bool()) ||
			    (v->j.type == JSON_ARRAY && k < n)) {
				vj_attach(v, k, c);
			} else {
				c->dead = 1;            /* not attached: hand the node back */
				vj_live -= (long)c->weight;
			}
		}
		if (v->j.type == JSON_ARRAY)
			v->n = n;
	}
	return &v->j;
}

/* object whose slot k carries alpha[k] with a symbolic presence bit and an arbitrary value */
json_t *vj_havoc_object(const char *const *alpha, unsigned nalpha, int depth)
{
	vj_t *o = vj_raw(JSON_OBJECT);
	unsigned k;

	VF_BOUND(nalpha <= VJ_MAXM, "alphabet larger than VJ_MAXM");
	for (k = 0; k < VJ_MAXM; k++) {
		if (k < nalpha) {
			strcpy(o->key[k], alpha[k]);
			if (nondet_bool())
				vj_attach(o, k, VJ(vj_havoc_value(depth)));
		}
	}
	return &o->j;
}

json_t *vj_havoc_array(unsigned maxn, int depth)
{
	vj_t *a = vj_raw(JSON_ARRAY);
	unsigned k, n = nondet_uint();

	__CPROVER_assume(n <= maxn && n <= VJ_MAXM);
	a->n = n;
	for (k = 0; k < VJ_MAXM; k++)
		if (k < n)
			vj_attach(a, k, VJ(vj_havoc_value(depth)));
	return &a->j;
}

/* ---- parsers: havocked by the harness ---- */
static void vj_fill_error(json_error_t *error)
{
	if (error) {
		error->line = nondet_int();
		error->column = nondet_int();
		error->position = nondet_int();
		/* jansson always NUL-terminates both; content arbitrary but text non-empty on error */
		error->source[0] = nondet_char();
		error->source[1] = '\0';
		error->text[0] = nondet_char();
		__CPROVER_assume(error->text[0] != '\0');
		error->text[1] = '\0';
		vf_untrusted_text = error;
	}
}

json_t *json_loads(const char *input, size_t flags, json_error_t *error)
{
	json_t *r;
	vj_parse_flags = flags;
	if (!input) {
		vj_fill_error(error);
		return NULL;
	}
	r = vf_parse(vj_parse_calls++, input, strlen(input), flags);
	if (!r)
		vj_fill_error(error);
	return r;
}

json_t *json_loadb(const char *buffer, size_t buflen, size_t flags, json_error_t *error)
{
	json_t *r;
	vj_parse_flags = flags;
	if (!buffer) {
		vj_fill_error(error);
		return NULL;
	}
	r = vf_parse(vj_parse_calls++, buffer, buflen, flags);
	if (!r)
		vj_fill_error(error);
	return r;
}

json_t *json_loadf(FILE *input, size_t flags, json_error_t *error)
{
	json_t *r;
	vj_parse_flags = flags;
	if (!input) {
		vj_fill_error(error);
		return NULL;
	}
	r = vf_parse(vj_parse_calls++, NULL, 0, flags);
	if (!r)
		vj_fill_error(error);
	return r;
}

json_t *json_load_file(const char *path, size_t flags, json_error_t *error)
{
	json_t *r;
	vj_parse_flags = flags;
	if (!path) {
		vj_fill_error(error);
		return NULL;
	}
	r = vf_parse(vj_parse_calls++, NULL, 0, flags);
	if (!r)
		vj_fill_error(error);
	return r;
}

/* ---- printer: arbitrary NUL-free text, allocated with jansson's allocator ---- */
char *json_dumps(const json_t *json, size_t flags)
{
	size_t n = nondet_size_t(), i;
	char *p;

	if (!json)
		return NULL;
	__CPROVER_assume(n >= 1 && n <= VJ_DUMPLEN);
	if (vj_malloc_fn)
		p = vj_malloc_fn(n + 1);
	else {
		p = malloc(VJ_DUMPLEN + 1);
		__CPROVER_assume(p != NULL);
	}
	if (!p)
		return NULL;
	for (i = 0; i < VJ_DUMPLEN; i++) {
		if (i < n) {
			p[i] = nondet_char();
			__CPROVER_assume(p[i] != '\0');
		}
	}
	p[n] = '\0';
	vf_dump_hook(vj_dump_calls++, json, flags, p);
	return p;
}
