/* M4 - stubs for the OpenSSL parameter getters tools/key2jwk.c uses (with openssl_stubs.c for
 * BIGNUM).  EVP_PKEY_get_bn_param yields an arbitrary non-negative integer below 2^(8*vk_width) as
 * a BIGNUM (minimal length, as BN_num_bytes reports it) and records it. */
#include <string.h>
#include <stdlib.h>
#include <openssl/evp.h>
#include <openssl/bn.h>
#include <openssl/core_names.h>
#include "vf.h"
#include "openssl_stubs.h"

unsigned vk_width;                 /* field width in bytes of the key the harness hands in */
size_t vk_bits;                    /* what OSSL_PKEY_PARAM_BITS reports */
const char *vk_group;              /* what EVP_PKEY_get_group_name reports */
#define VK_NBN 3
unsigned char vk_bn[VK_NBN][VO_IMAX];
unsigned vk_bn_len[VK_NBN];
const char *vk_bn_name[VK_NBN];
unsigned vk_nbn;

int EVP_PKEY_get_size_t_param(const EVP_PKEY *pkey, const char *key_name, size_t *out)
{
	__CPROVER_assert(pkey != NULL && key_name != NULL && out != NULL, "M4: EVP_PKEY_get_size_t_param arguments");
	*out = vk_bits;
	return 1;
}

int EVP_PKEY_get_group_name(const EVP_PKEY *pkey, char *name, size_t name_sz, size_t *gname_len)
{
	size_t n = strlen(vk_group);
	__CPROVER_assert(pkey != NULL && name != NULL && name_sz > n, "M4: EVP_PKEY_get_group_name buffer");
	strcpy(name, vk_group);
	if (gname_len)
		*gname_len = n;
	return 1;
}

int EVP_PKEY_get_bn_param(const EVP_PKEY *pkey, const char *key_name, BIGNUM **bn)
{
	BIGNUM *b;
	unsigned i, n = nondet_uint();

	__CPROVER_assert(pkey != NULL && key_name != NULL && bn != NULL, "M4: EVP_PKEY_get_bn_param arguments");
	VF_BOUND(vk_nbn < VK_NBN, "more big-number parameters than VK_NBN");
	b = malloc(sizeof(*b));
	__CPROVER_assume(b != NULL);
	__CPROVER_assume(n <= vk_width && n <= VO_IMAX);
	for (i = 0; i < VO_IMAX; i++) {
		b->b[i] = (i < n) ? nondet_uchar() : 0;
		vk_bn[vk_nbn][i] = b->b[i];
	}
	if (n > 0)
		__CPROVER_assume(b->b[0] != 0);          /* minimal length */
	b->len = n;
	b->live = 1;
	vo_live++;
	vk_bn_len[vk_nbn] = n;
	vk_bn_name[vk_nbn] = key_name;
	vk_nbn++;
	*bn = b;
	return 1;
}

int BN_bn2binpad(const BIGNUM *a, unsigned char *to, int tolen)
{
	int i, pad;
	__CPROVER_assert(a != NULL && a->live && to != NULL, "M4: BN_bn2binpad arguments");
	if (tolen < (int)a->len)
		return -1;
	pad = tolen - (int)a->len;
	for (i = 0; i < VO_IMAX; i++)
		if (i < tolen)
			to[i] = i < pad ? 0 : a->b[i - pad];
	return tolen;
}

void *CRYPTO_malloc(size_t num, const char *file, int line)
{
	void *p;
	VF_BOUND(num <= VO_IMAX, "OPENSSL_malloc size");
	p = malloc(VO_IMAX);
	__CPROVER_assume(p != NULL);
	return p;
}

void CRYPTO_free(void *ptr, const char *file, int line)
{
	free(ptr);
}
