/* M3 - provider oracle: replaces the whole crypto provider through the jwt_ops table. */
#ifndef VF_PROVIDER_STUB_H
#define VF_PROVIDER_STUB_H
#include "vf.h"

#ifndef PV_MACLEN
#define PV_MACLEN 3      /* oracle MAC / signature length produced by the sign side            */
#endif
#ifndef PV_STRMAX
#define PV_STRMAX 16     /* capacity of the sign-side copy of the signing input                */
#endif
#ifndef PV_SIGMAX
#define PV_SIGMAX 12     /* capacity of the verify-side signature monitor                      */
#endif

/* verify-side monitor */
extern unsigned pv_verify_calls;
extern const jwk_item_t *pv_v_key;
extern jwt_alg_t pv_v_alg;
extern const char *pv_v_head;
extern unsigned pv_v_head_len;
extern unsigned char pv_v_sig[PV_SIGMAX];
extern int pv_v_sig_len;
extern int pv_v_said_valid;          /* the oracle answered "valid" on its last consultation */

/* sign-side monitors */
extern unsigned pv_hmac_calls, pv_pem_calls;
extern const jwk_item_t *pv_s_key;
extern jwt_alg_t pv_s_alg;
extern const char *pv_s_str;
extern unsigned pv_s_len;
extern char pv_s_copy[PV_STRMAX];     /* copy of the signing input (the buffer itself is released) */
extern unsigned char pv_s_out[PV_MACLEN];   /* bytes the sign oracle produced */
extern unsigned pv_s_outlen;
extern int pv_s_ok;                   /* the last sign call succeeded */

/* import-side monitors (process_* contract stubs) */
extern unsigned pv_proc_calls;

#ifdef PV_TAPE
extern unsigned pv_tape_i;
extern int pv_tape[];
#define PV_TAPE_N 8
#endif

extern struct jwt_crypto_ops vf_ops;
#endif
