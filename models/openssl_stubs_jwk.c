/* M4 - stubs for the OpenSSL functions libjwt/openssl/jwk-parse.c calls (with openssl_stubs.c
 * for BIGNUM).  OSSL_PARAM_BLD_push_* record (name, bytes); EVP_PKEY_fromdata, EC point building
 * and PEM writing are oracles that succeed or fail arbitrarily.  Every stub asserts its documented
 * preconditions (non-NULL strings and buffers, live objects). */
#include <string.h>
#include <stdlib.h>
#include <openssl/evp.h>
#include <openssl/bn.h>
#include <openssl/ec.h>
#include <openssl/bio.h>
#include <openssl/pem.h>
#include <openssl/param_build.h>
#include <openssl/core_names.h>
#include "vf.h"
#include "openssl_stubs.h"
#include "openssl_stubs_jwk.h"

struct vo_push vo_pushes[VO_NPUSH];
unsigned vo_npush;
const char *vo_ctx_name;
int vo_fromdata_calls, vo_fromdata_ok, vo_pem_priv, vo_pem_written;
size_t vo_bits_reported;
long vo_jwk_live;
void *vo_made_pkey;
char *vo_made_pem;
unsigned char vo_point_x[VO_PBYTES], vo_point_y[VO_PBYTES];
unsigned vo_point_xlen, vo_point_ylen;
const char *vo_group_name;

static int o_ctx, o_bld, o_params, o_bio, o_group, o_point, o_pkey;   /* tags; value = live flag */
static int ctx_inited;
static char pem_text[] = "-----PEM";

#define TAG(p) ((void *)&(p))

EVP_PKEY_CTX *EVP_PKEY_CTX_new_from_name(OSSL_LIB_CTX *libctx, const char *name, const char *propquery)
{
	__CPROVER_assert(name != NULL, "M4: EVP_PKEY_CTX_new_from_name needs a name");
	if (VO_FAILS())
		return NULL;
	vo_ctx_name = name;
	o_ctx = 1;
	ctx_inited = 0;
	vo_jwk_live++;
	return TAG(o_ctx);
}

void EVP_PKEY_CTX_free(EVP_PKEY_CTX *ctx)
{
	if (!ctx)
		return;
	__CPROVER_assert(ctx == TAG(o_ctx) && o_ctx, "M4: EVP_PKEY_CTX_free of a live context");
	o_ctx = 0;
	vo_jwk_live--;
}

int EVP_PKEY_fromdata_init(EVP_PKEY_CTX *ctx)
{
	__CPROVER_assert(ctx == TAG(o_ctx) && o_ctx, "M4: EVP_PKEY_fromdata_init on a live context");
	if (VO_FAILS())
		return 0;
	ctx_inited = 1;
	return 1;
}

OSSL_PARAM_BLD *OSSL_PARAM_BLD_new(void)
{
	if (VO_FAILS())
		return NULL;
	o_bld = 1;
	vo_jwk_live++;
	return TAG(o_bld);
}

void OSSL_PARAM_BLD_free(OSSL_PARAM_BLD *bld)
{
	if (!bld)
		return;
	__CPROVER_assert(bld == TAG(o_bld) && o_bld, "M4: OSSL_PARAM_BLD_free of a live builder");
	o_bld = 0;
	vo_jwk_live--;
}

static struct vo_push *vo_slot(OSSL_PARAM_BLD *bld, const char *key, int kind)
{
	__CPROVER_assert(bld == TAG(o_bld) && o_bld && key != NULL, "M4: OSSL_PARAM_BLD_push_* on a live builder with a name");
	VF_BOUND(vo_npush < VO_NPUSH, "more pushes than VO_NPUSH");
	vo_pushes[vo_npush].name = key;
	vo_pushes[vo_npush].kind = kind;
	return &vo_pushes[vo_npush++];
}

int OSSL_PARAM_BLD_push_BN(OSSL_PARAM_BLD *bld, const char *key, const BIGNUM *bn)
{
	struct vo_push *p;
	unsigned i;
	__CPROVER_assert(bn != NULL && bn->live, "M4: OSSL_PARAM_BLD_push_BN needs a live BIGNUM");
	p = vo_slot(bld, key, 1);
	p->len = bn->len;
	for (i = 0; i < VO_PBYTES; i++)
		p->bytes[i] = i < bn->len ? bn->b[i] : 0;
	return !VO_FAILS();
}

int OSSL_PARAM_BLD_push_octet_string(OSSL_PARAM_BLD *bld, const char *key, const void *buf, size_t bsize)
{
	struct vo_push *p;
	unsigned i;
	__CPROVER_assert(buf != NULL, "M4: OSSL_PARAM_BLD_push_octet_string needs a buffer (and an initialised length)");
	p = vo_slot(bld, key, 2);
	p->len = (unsigned)bsize;
	for (i = 0; i < VO_PBYTES; i++)
		p->bytes[i] = (buf && i < bsize) ? ((const unsigned char *)buf)[i] : 0;
	return !VO_FAILS();
}

int OSSL_PARAM_BLD_push_utf8_string(OSSL_PARAM_BLD *bld, const char *key, const char *buf, size_t bsize)
{
	struct vo_push *p;
	unsigned i;
	__CPROVER_assert(buf != NULL, "M4: OSSL_PARAM_BLD_push_utf8_string needs a string");
	p = vo_slot(bld, key, 3);
	p->len = (unsigned)bsize;
	for (i = 0; i < VO_PBYTES; i++)
		p->bytes[i] = (buf && i < bsize) ? (unsigned char)buf[i] : 0;
	return !VO_FAILS();
}

OSSL_PARAM *OSSL_PARAM_BLD_to_param(OSSL_PARAM_BLD *bld)
{
	__CPROVER_assert(bld == TAG(o_bld) && o_bld, "M4: OSSL_PARAM_BLD_to_param on a live builder");
	if (VO_FAILS())
		return NULL;
	o_params = 1;
	vo_jwk_live++;
	return TAG(o_params);
}

void OSSL_PARAM_free(OSSL_PARAM *p)
{
	if (!p)
		return;
	__CPROVER_assert(p == TAG(o_params) && o_params, "M4: OSSL_PARAM_free of live params");
	o_params = 0;
	vo_jwk_live--;
}

int EVP_PKEY_fromdata(EVP_PKEY_CTX *ctx, EVP_PKEY **ppkey, int selection, OSSL_PARAM params[])
{
	__CPROVER_assert(ctx == TAG(o_ctx) && o_ctx && ctx_inited && ppkey != NULL && params == TAG(o_params) && o_params,
			 "M4: EVP_PKEY_fromdata on an initialised context with built params");
	vo_fromdata_calls++;
	if (VO_FAILS()) {              /* the key material does not make a key */
		int r = nondet_int();
		__CPROVER_assume(r <= 0);
		return r;
	}
	o_pkey = 1;
	vo_fromdata_ok = 1;
	vo_made_pkey = TAG(o_pkey);
	*ppkey = TAG(o_pkey);
	return 1;
}

void EVP_PKEY_free(EVP_PKEY *pkey)
{
	if (!pkey)
		return;
	__CPROVER_assert(pkey == TAG(o_pkey) && o_pkey, "M4: EVP_PKEY_free of a live key");
	o_pkey = 0;
}

int EVP_PKEY_get_size_t_param(const EVP_PKEY *pkey, const char *key_name, size_t *out)
{
	__CPROVER_assert(pkey == TAG(o_pkey) && o_pkey && key_name && out, "M4: EVP_PKEY_get_size_t_param arguments");
	if (VO_FAILS())
		return 0;
	vo_bits_reported = nondet_size_t();
	*out = vo_bits_reported;
	return 1;
}

const BIO_METHOD *BIO_s_mem(void) { return (const BIO_METHOD *)TAG(o_bio); }

BIO *BIO_new(const BIO_METHOD *type)
{
	if (VO_FAILS())
		return NULL;
	o_bio = 1;
	vo_jwk_live++;
	return TAG(o_bio);
}

int BIO_free(BIO *a)
{
	if (!a)
		return 0;
	__CPROVER_assert(a == TAG(o_bio) && o_bio, "M4: BIO_free of a live BIO");
	o_bio = 0;
	vo_jwk_live--;
	return 1;
}

static int vo_pem_write(BIO *out, int priv)
{
	__CPROVER_assert(out == TAG(o_bio) && o_bio, "M4: PEM_write_bio_* on a live BIO");
	if (VO_FAILS())
		return 0;
	vo_pem_written = 1;
	vo_pem_priv = priv;
	return 1;
}

int PEM_write_bio_PUBKEY(BIO *out, const EVP_PKEY *x)
{
	__CPROVER_assert(x == TAG(o_pkey) && o_pkey, "M4: PEM_write_bio_PUBKEY of the key just made");
	return vo_pem_write(out, 0);
}

int PEM_write_bio_PrivateKey(BIO *out, const EVP_PKEY *x, const EVP_CIPHER *enc, const unsigned char *kstr, int klen,
			     pem_password_cb *cb, void *u)
{
	__CPROVER_assert(x == TAG(o_pkey) && o_pkey && enc == NULL, "M4: PEM_write_bio_PrivateKey of the key just made, unencrypted");
	return vo_pem_write(out, 1);
}

long BIO_ctrl(BIO *bp, int cmd, long larg, void *parg)
{
	__CPROVER_assert(bp == TAG(o_bio) && o_bio && cmd == BIO_CTRL_INFO && parg != NULL, "M4: BIO_get_mem_data on a live BIO");
	*(char **)parg = pem_text;
	return vo_pem_written ? 8 : 0;
}

void *CRYPTO_malloc(size_t num, const char *file, int line)
{
	void *p;
	if (VO_FAILS())
		return NULL;
	VF_BOUND(num <= 16, "OPENSSL_malloc size");
	p = malloc(16);
	__CPROVER_assume(p != NULL);
	vo_made_pem = p;
	return p;
}

void CRYPTO_free(void *ptr, const char *file, int line)
{
	free(ptr);
}

/* ---- EC public point ---- */
int OBJ_sn2nid(const char *s)
{
	__CPROVER_assert(s != NULL, "M4: OBJ_sn2nid needs a name");
	vo_group_name = s;
	{
		int nid = nondet_int();
		if (nid == 0)
			vo_oracle_failed = 1;     /* NID_undef: unknown name */
		return nid;
	}
}

EC_GROUP *EC_GROUP_new_by_curve_name(int nid)
{
	if (VO_FAILS())
		return NULL;                  /* unknown curve */
	o_group = 1;
	vo_jwk_live++;
	return TAG(o_group);
}

void EC_GROUP_free(EC_GROUP *group)
{
	if (!group)
		return;
	__CPROVER_assert(group == TAG(o_group) && o_group, "M4: EC_GROUP_free of a live group");
	o_group = 0;
	vo_jwk_live--;
}

EC_POINT *EC_POINT_new(const EC_GROUP *group)
{
	__CPROVER_assert(group == TAG(o_group) && o_group, "M4: EC_POINT_new on a live group");
	if (VO_FAILS())
		return NULL;
	o_point = 1;
	vo_jwk_live++;
	return TAG(o_point);
}

void EC_POINT_free(EC_POINT *point)
{
	if (!point)
		return;
	__CPROVER_assert(point == TAG(o_point) && o_point, "M4: EC_POINT_free of a live point");
	o_point = 0;
	vo_jwk_live--;
}

int EC_POINT_set_affine_coordinates(const EC_GROUP *group, EC_POINT *p, const BIGNUM *x, const BIGNUM *y, BN_CTX *ctx)
{
	unsigned i;
	__CPROVER_assert(group == TAG(o_group) && p == TAG(o_point) && x && y && x->live && y->live, "M4: EC_POINT_set_affine_coordinates arguments");
	vo_point_xlen = x->len;
	vo_point_ylen = y->len;
	for (i = 0; i < VO_PBYTES; i++) {
		vo_point_x[i] = i < x->len ? x->b[i] : 0;
		vo_point_y[i] = i < y->len ? y->b[i] : 0;
	}
	return !VO_FAILS();                 /* not on the curve: 0 */
}

size_t EC_POINT_point2buf(const EC_GROUP *group, const EC_POINT *point, point_conversion_form_t form, unsigned char **pbuf, BN_CTX *ctx)
{
	unsigned char *b;
	__CPROVER_assert(group == TAG(o_group) && point == TAG(o_point) && pbuf && form == POINT_CONVERSION_UNCOMPRESSED, "M4: EC_POINT_point2buf arguments");
	if (VO_FAILS())
		return 0;
	b = malloc(16);
	__CPROVER_assume(b != NULL);
	b[0] = 4;
	*pbuf = b;
	return 5;
}
