/* M3 - provider oracle with monitors (DESIGN.md §3).  Installed by defining jwt_ops here; the
 * core-layer harnesses do not link libjwt/jwt-crypto-ops.c or the real provider units. */
#include <string.h>
#include "provider_stub.h"

unsigned pv_verify_calls;
const jwk_item_t *pv_v_key;
jwt_alg_t pv_v_alg;
const char *pv_v_head;
unsigned pv_v_head_len;
unsigned char pv_v_sig[PV_SIGMAX];
int pv_v_sig_len;
int pv_v_said_valid;

unsigned pv_hmac_calls, pv_pem_calls;
const jwk_item_t *pv_s_key;
jwt_alg_t pv_s_alg;
const char *pv_s_str;
unsigned pv_s_len;
char pv_s_copy[PV_STRMAX];
unsigned char pv_s_out[PV_MACLEN];
unsigned pv_s_outlen;
int pv_s_ok;

unsigned pv_proc_calls;

/* Choice tape (two-run harnesses, -DPV_TAPE): the oracle's nondeterministic choices are drawn from
 * arrays the harness fills once with symbolic values and rewinds (pv_tape_i = 0) between the two
 * runs that are compared, so both runs see the same oracle. */
#ifdef PV_TAPE
#define PV_TAPE_N 8
unsigned pv_tape_i;
int pv_tape[PV_TAPE_N];
static int pv_draw(void)
{
	__CPROVER_assert(pv_tape_i < PV_TAPE_N, "harness: oracle choice tape long enough");
	return pv_tape[pv_tape_i++];
}
#define PV_BOOL() (pv_draw() & 1)
#define PV_INT() pv_draw()
#define PV_UINT() ((unsigned)pv_draw())
#define PV_UCHAR() ((unsigned char)pv_draw())
#else
#define PV_BOOL() nondet_bool()
#define PV_INT() nondet_int()
#define PV_UINT() nondet_uint()
#define PV_UCHAR() nondet_uchar()
#endif

/* Both real providers report failure through the return value and/or jwt->error; a failing
 * oracle does an arbitrary non-empty combination of the two, a succeeding one neither. */
static int pv_verify_sha_pem(jwt_t *jwt, const char *head, unsigned int head_len,
			     unsigned char *sig, int sig_len)
{
	int i;

	pv_verify_calls++;
	pv_v_key = jwt->key;
	pv_v_alg = jwt->alg;
	pv_v_head = head;
	pv_v_head_len = head_len;
	pv_v_sig_len = sig_len;
	for (i = 0; i < PV_SIGMAX; i++)
		pv_v_sig[i] = (i < sig_len) ? sig[i] : 0;

	if (PV_BOOL()) {
		pv_v_said_valid = 1;
		return 0;
	} else {
		int r = PV_INT();
		int e = PV_BOOL();
		__CPROVER_assume(r != 0 || e);
		pv_v_said_valid = 0;
		if (e)
			jwt_write_error(jwt, "oracle: invalid signature");
		return r;
	}
}

static int pv_sign_common(jwt_t *jwt, char **out, unsigned int *len, const char *str,
			  unsigned int str_len)
{
	unsigned i, n;
	char *p;

	pv_s_key = jwt->key;
	pv_s_alg = jwt->alg;
	pv_s_str = str;
	pv_s_len = str_len;
	pv_s_ok = 0;
#ifdef PV_COPY_INPUT
	for (i = 0; i < PV_STRMAX; i++)
		pv_s_copy[i] = (i < str_len) ? str[i] : '\0';
#endif

	if (PV_BOOL()) {          /* provider failure */
		*out = NULL;
		if (PV_BOOL())
			jwt_write_error(jwt, "oracle: sign failure");
		return 1;
	}
	n = PV_UINT();
	__CPROVER_assume(n >= 1 && n <= PV_MACLEN);
	p = jwt_malloc(PV_MACLEN);
	if (p == NULL) {
		*out = NULL;
		return 1;
	}
	for (i = 0; i < PV_MACLEN; i++) {
		pv_s_out[i] = PV_UCHAR();
		p[i] = (char)pv_s_out[i];
	}
	pv_s_outlen = n;
	*out = p;
	*len = n;
	pv_s_ok = 1;
	return 0;
}

static int pv_sign_sha_hmac(jwt_t *jwt, char **out, unsigned int *len, const char *str,
			    unsigned int str_len)
{
	pv_hmac_calls++;
	return pv_sign_common(jwt, out, len, str, str_len);
}

static int pv_sign_sha_pem(jwt_t *jwt, char **out, unsigned int *len, const char *str,
			   unsigned int str_len)
{
	pv_pem_calls++;
	return pv_sign_common(jwt, out, len, str, str_len);
}

/* import contract stubs: may set item->error (always together with a message), may set provider
 * data / bits / curve / private flag; touch nothing else (DESIGN.md §5 C07). */
static int pv_process(json_t *jwk, jwk_item_t *item)
{
	pv_proc_calls++;
	if (nondet_bool()) {
		jwt_write_error(item, "oracle: bad key");
		return -1;
	}
	item->provider = JWT_CRYPTO_OPS_OPENSSL;
	item->provider_data = nondet_ptr();
	__CPROVER_assume(item->provider_data != NULL);
	item->bits = nondet_size_t();
	item->is_private_key = nondet_bool();
	item->curve[0] = nondet_char();
	item->curve[1] = '\0';
	return 0;
}

static void pv_process_item_free(jwk_item_t *item)
{
	if (item == NULL || item->provider != JWT_CRYPTO_OPS_OPENSSL)
		return;
	item->pem = NULL;
	item->provider_data = NULL;
	item->provider = JWT_CRYPTO_OPS_NONE;
}

struct jwt_crypto_ops vf_ops = {
	.name = "oracle",
	.provider = JWT_CRYPTO_OPS_OPENSSL,
	.sign_sha_hmac = pv_sign_sha_hmac,
	.sign_sha_pem = pv_sign_sha_pem,
	.verify_sha_pem = pv_verify_sha_pem,
	.jwk_implemented = 1,
	.process_eddsa = pv_process,
	.process_rsa = pv_process,
	.process_ec = pv_process,
	.process_item_free = pv_process_item_free,
};

struct jwt_crypto_ops *jwt_ops = &vf_ops;
