/* M1 - allocator model, installed through the real jwt_set_alloc().
 *
 * - struct-sized requests (constants, folded during symbolic execution) get an exactly typed
 *   object; only the classes enabled in the mask vf_cls are offered (every offered class is one
 *   more alias candidate for every pointer that came from a symbolic-size request).  The harness
 *   sets vf_cls to constants, phase by phase, so the tests fold during symbolic execution.
 * - every other request must satisfy n <= VF_CAP (a "bound:" failure otherwise) and gets ONE
 *   fresh VF_CAP-byte object:
 *     default          p = base                       (functional mode)
 *     -DVF_EXACT_END   p = base + (VF_CAP - n)        (any access at or past p+n is out of bounds)
 *     -DVF_EXACT_START p = base, n bytes from the end (any access before p is out of bounds)
 * - fault mode: request number vf_fail_at returns NULL (vf_fail_at = -1: never).
 * - vf_live counts live blocks (leak lemmas); -DVF_FREE_NOOP turns vf_free into bookkeeping only
 *   (verdict harnesses where heap safety is not the subject).
 */
#include <stdlib.h>
#include "vf.h"

unsigned vf_alloc_no;
int vf_fail_at = -1;
int vf_faulted;
long vf_live;
unsigned vf_cls;

int vf_tick(void)
{
	if ((int)(vf_alloc_no++) == vf_fail_at) {
		vf_faulted = 1;
		return 0;
	}
	return 1;
}

void *vf_malloc(size_t n)
{
	void *p;

	if (!vf_tick())
		return NULL;
	vf_live++;
	if ((vf_cls & VF_CLS_JWT) && n == sizeof(jwt_t)) {
		p = malloc(sizeof(jwt_t));
		__CPROVER_assume(p != NULL);
		return p;
	}
	if ((vf_cls & VF_CLS_CHECKER) && n == sizeof(jwt_checker_t)) {
		p = malloc(sizeof(jwt_checker_t));
		__CPROVER_assume(p != NULL);
		return p;
	}
	if ((vf_cls & VF_CLS_BUILDER) && n == sizeof(jwt_builder_t)) {
		p = malloc(sizeof(jwt_builder_t));
		__CPROVER_assume(p != NULL);
		return p;
	}
	if ((vf_cls & VF_CLS_ITEM) && n == sizeof(jwk_item_t)) {
		p = malloc(sizeof(jwk_item_t));
		__CPROVER_assume(p != NULL);
		return p;
	}
	if ((vf_cls & VF_CLS_SET) && n == sizeof(jwk_set_t)) {
		p = malloc(sizeof(jwk_set_t));
		__CPROVER_assume(p != NULL);
		return p;
	}
	VF_BOUND(n <= VF_CAP, "allocation size exceeds VF_CAP");
	p = malloc(VF_CAP);
	__CPROVER_assume(p != NULL);
#if defined(VF_EXACT_END)
	return (char *)p + (VF_CAP - n);
#else
	return p;
#endif
}

void vf_free(void *p)
{
	if (p == NULL)
		return;
	vf_live--;
#ifndef VF_FREE_NOOP
#if defined(VF_EXACT_END)
	free((char *)p - __CPROVER_POINTER_OFFSET(p));
#else
	free(p);
#endif
#endif
}

void vf_install_alloc(void)
{
	jwt_set_alloc(vf_malloc, vf_free);
}
