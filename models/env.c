/* M6 - libc / environment model (beyond what CBMC ships: strlen, strcmp, strcpy, memcpy, ...). */
#include <stdarg.h>
#include <stdio.h>
#include <string.h>
#include <time.h>
#include "vf.h"

time_t vf_now;

time_t time(time_t *t)
{
	if (t)
		*t = vf_now;
	return vf_now;
}

/* Error-message CONTENT is not a subject of any property; non-emptiness is (C14).  Every libjwt
 * format string starts with literal text (checked syntactically on every run by vf/props.py), so
 * the real snprintf always produces at least that first character: the model writes exactly it.
 * A format that starts with a conversion gets an arbitrary (possibly empty) result. */
/* The format of a printf-family call must not be text derived from untrusted input: the JSON
 * model registers the parser's error text (arbitrary bytes, '%' included) as such.  A format that
 * lives in that object and can hold a '%' is undefined behaviour waiting for the right input. */
const void *vf_untrusted_text;
#define VF_FMT_CHECK(fmt_)                                                                      \
	__CPROVER_assert(!(vf_untrusted_text && __CPROVER_same_object((fmt_), vf_untrusted_text)) || \
			 ((fmt_)[0] != '%' && ((fmt_)[0] == '\0' || (fmt_)[1] != '%')),           \
			 "printf-family format string is untrusted input text that can contain a conversion (undefined behaviour)")

int snprintf(char *s, size_t n, const char *fmt, ...)
{
	unsigned i;
	char lit = '\0';

	VF_FMT_CHECK(fmt);

	if (n == 0)
		return nondet_int();
	if (n == 1) {
		s[0] = '\0';
		return nondet_int();
	}
	/* first literal character of the format (conversions are skipped): the real output contains
	 * it, so the real message is non-empty whenever one exists */
	for (i = 0; i < 8 && fmt[i]; i++) {
		if (fmt[i] == '%') {
			unsigned k;
			if (fmt[i + 1] == '%') {
				lit = '%';
				break;
			}
			for (k = i + 1; k < i + 6 && fmt[k]; k++) {
				char c = fmt[k];
				if (c == 's' || c == 'd' || c == 'i' || c == 'u' || c == 'x' || c == 'X' || c == 'c' || c == 'p')
					break;
			}
			i = k;
			if (!fmt[i])
				break;
		} else {
			lit = fmt[i];
			break;
		}
	}
#ifdef VF_SNPRINTF_FULL
	/* message LENGTH as a subject (copies between message buffers): the result is any string that
	 * fits the size argument - arbitrary bytes, terminated at the latest at s[n - 1] */
	__CPROVER_havoc_slice(s, n);
	s[0] = lit ? lit : nondet_char();
	s[n - 1] = '\0';
	return nondet_int();
#endif
	if (lit == '\0') {
		s[0] = nondet_char();      /* conversions only: content (and emptiness) arbitrary */
		s[1] = '\0';
	} else {
		s[0] = lit;
		s[1] = '\0';
	}
	return nondet_int();
}

/* exact for the conversions libjwt uses with sprintf: %s and literal characters */
int sprintf(char *s, const char *fmt, ...)
{
	va_list ap;
	size_t o = 0, i;

	VF_FMT_CHECK(fmt);
	va_start(ap, fmt);
	for (i = 0; fmt[i]; i++) {
		if (fmt[i] == '%' && fmt[i + 1] == 's') {
			const char *a = va_arg(ap, const char *);
			size_t k;
			for (k = 0; a[k]; k++)
				s[o++] = a[k];
			i++;
		} else {
			__CPROVER_assert(fmt[i] != '%', "model: sprintf conversion other than %s");
			s[o++] = fmt[i];
		}
	}
	s[o] = '\0';
	va_end(ap);
	return (int)o;
}

int fprintf(FILE *f, const char *fmt, ...) { VF_FMT_CHECK(fmt); return nondet_int(); }
int printf(const char *fmt, ...) { VF_FMT_CHECK(fmt); return nondet_int(); }
int puts(const char *s) { return nondet_int(); }
int fputs(const char *s, FILE *f) { return nondet_int(); }
void perror(const char *s) { }

/* strlen with its precondition spelled out: verdict-mode queries run without CBMC's pointer checks,
 * where strlen(NULL) would otherwise just wander off; the path ends at the failed obligation */
size_t strlen(const char *s)
{
	size_t n = 0;
	__CPROVER_assert(s != NULL, "strlen(NULL): undefined behaviour (crash)");
	__CPROVER_assume(s != NULL);
	while (s[n] != '\0')
		n++;
	return n;
}

size_t strcspn(const char *s, const char *reject)
{
	size_t i, k;
	for (i = 0; s[i]; i++)
		for (k = 0; reject[k]; k++)
			if (s[i] == reject[k])
				return i;
	return i;
}

char *strncpy(char *dst, const char *src, size_t n)
{
	size_t i;
	for (i = 0; i < n && src[i]; i++)
		dst[i] = src[i];
	if (i < n)
		memset(dst + i, 0, n - i);      /* zero padding, as the standard requires */
	return dst;
}
