/* M4 monitors (JWK import part) */
#ifndef VF_OPENSSL_STUBS_JWK_H
#define VF_OPENSSL_STUBS_JWK_H
#define VO_NPUSH 10
#define VO_PBYTES 8
struct vo_push {
	const char *name;            /* OSSL_PKEY_PARAM_* name */
	int kind;                    /* 1 BIGNUM, 2 octet string, 3 utf8 string */
	unsigned char bytes[VO_PBYTES];
	unsigned len;
};
extern struct vo_push vo_pushes[VO_NPUSH];
extern unsigned vo_npush;
extern const char *vo_ctx_name;      /* key type name given to EVP_PKEY_CTX_new_from_name */
extern int vo_fromdata_calls, vo_fromdata_ok, vo_pem_priv, vo_pem_written;
extern size_t vo_bits_reported;
extern long vo_jwk_live;             /* live OpenSSL objects created by the parser (ctx, bld, params, bio, group, point) */
extern void *vo_made_pkey;
extern char *vo_made_pem;
extern unsigned char vo_point_x[VO_PBYTES], vo_point_y[VO_PBYTES];
extern unsigned vo_point_xlen, vo_point_ylen;
extern const char *vo_group_name;
#endif
