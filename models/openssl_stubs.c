/* M4 - stubs for the OpenSSL functions libjwt/openssl/sign-verify.c calls, with monitors.
 * Constructors return a tagged object or NULL exactly where OpenSSL documents NULL; BIGNUM is a
 * byte string with minimal-length semantics; ECDSA_SIG carries two BIGNUMs; i2d/d2i_ECDSA_SIG are
 * an abstract encoding (only round-trip and length facts are used); EVP_DigestVerify /
 * EVP_DigestSign / HMAC are oracles.  Every stub asserts its documented non-NULL preconditions. */
#include <string.h>
#include <stdlib.h>
#include <openssl/evp.h>
#include <openssl/hmac.h>
#include <openssl/bn.h>
#include <openssl/ec.h>
#include <openssl/rsa.h>
#include <openssl/bio.h>
#include "vf.h"
#ifdef PROP_C18
extern void vf_c18_observe(void);
#define VF_OBSERVE() vf_c18_observe()
#else
#define VF_OBSERVE() ((void)0)
#endif
#include "openssl_stubs.h"

struct evp_md_st { int id; };
struct evp_md_ctx_st { int live; };
struct evp_pkey_ctx_st { int live; };
struct evp_pkey_st { int dummy; };
struct ECDSA_SIG_st { BIGNUM *r, *s; int live; };

static struct evp_md_st md256 = { 256 }, md384 = { 384 }, md512 = { 512 }, mdn = { 0 };
const EVP_MD *vo_sha256 = &md256, *vo_sha384 = &md384, *vo_sha512 = &md512, *vo_mdnull = &mdn;

int vo_oracle_failed;
int vo_key_type;
unsigned vo_verify_calls, vo_sign_calls, vo_hmac_calls;
const EVP_MD *vo_md;
const EVP_PKEY *vo_pkey;
int vo_init_ok;
int vo_pad, vo_pad_set, vo_salt, vo_salt_set;
const unsigned char *vo_tbs;
size_t vo_tbs_len;
const unsigned char *vo_sig;
size_t vo_sig_len;
int vo_valid;
int vo_sig_is_der;
unsigned char vo_r[VO_IMAX], vo_s[VO_IMAX];
unsigned vo_r_len, vo_s_len;
unsigned vo_width;
unsigned char vo_dr[VO_IMAX], vo_ds[VO_IMAX];
unsigned vo_dr_len, vo_ds_len;
unsigned char vo_rawsig[VO_RAWMAX];
size_t vo_rawsig_len;
const void *vo_hmac_key;
int vo_hmac_keylen;
int vo_hmac_md_owned;
long vo_live;
static unsigned char *vo_der_buf;

const EVP_MD *EVP_sha256(void) { return vo_sha256; }
const EVP_MD *EVP_sha384(void) { return vo_sha384; }
const EVP_MD *EVP_sha512(void) { return vo_sha512; }
const EVP_MD *EVP_md_null(void) { return vo_mdnull; }

int EVP_PKEY_get_id(const EVP_PKEY *pkey)
{
	__CPROVER_assert(pkey != NULL, "M4: EVP_PKEY_get_id on NULL");
	return vo_key_type;
}

static struct evp_md_ctx_st the_ctx;
static struct evp_pkey_ctx_st the_pctx;

EVP_MD_CTX *EVP_MD_CTX_new(void)
{
	if (nondet_bool())
		return NULL;
	the_ctx.live = 1;
	vo_live++;
	return &the_ctx;
}

void EVP_MD_CTX_free(EVP_MD_CTX *ctx)
{
	if (!ctx)
		return;
	__CPROVER_assert(ctx == &the_ctx && the_ctx.live, "M4: EVP_MD_CTX_free of a live context");
	the_ctx.live = 0;
	vo_live--;
}

/* BIO_free: defined in openssl_stubs_jwk.c when the JWK parser is linked */
#ifndef VO_WITH_JWK
int BIO_free(BIO *a) { __CPROVER_assert(a == NULL, "M4: BIO_free"); return 0; }
#endif

static int vo_init(EVP_MD_CTX *ctx, EVP_PKEY_CTX **pctx, const EVP_MD *type, EVP_PKEY *pkey)
{
	__CPROVER_assert(ctx == &the_ctx && the_ctx.live && pkey != NULL, "M4: Digest*Init on a live context with a key");
	vo_md = type;
	vo_pkey = pkey;
	vo_init_ok = 0;
	if (nondet_bool())
		return 0;
	if (pctx)
		*pctx = &the_pctx;
	vo_init_ok = 1;
	return 1;
}

int EVP_DigestVerifyInit(EVP_MD_CTX *ctx, EVP_PKEY_CTX **pctx, const EVP_MD *type, ENGINE *e, EVP_PKEY *pkey)
{
	VF_OBSERVE();
	return vo_init(ctx, pctx, type, pkey);
}

int EVP_DigestSignInit(EVP_MD_CTX *ctx, EVP_PKEY_CTX **pctx, const EVP_MD *type, ENGINE *e, EVP_PKEY *pkey)
{
	return vo_init(ctx, pctx, type, pkey);
}

int EVP_PKEY_CTX_set_rsa_padding(EVP_PKEY_CTX *ctx, int pad_mode)
{
	__CPROVER_assert(ctx == &the_pctx, "M4: set_rsa_padding on the context of this operation");
	if (nondet_bool())
		return -1;
	vo_pad = pad_mode;
	vo_pad_set = 1;
	return 1;
}

int EVP_PKEY_CTX_set_rsa_pss_saltlen(EVP_PKEY_CTX *ctx, int saltlen)
{
	__CPROVER_assert(ctx == &the_pctx, "M4: set_rsa_pss_saltlen on the context of this operation");
	if (nondet_bool())
		return -1;
	vo_salt = saltlen;
	vo_salt_set = 1;
	return 1;
}

int EVP_DigestVerify(EVP_MD_CTX *ctx, const unsigned char *sigret, size_t siglen, const unsigned char *tbs, size_t tbslen)
{
	VF_OBSERVE();
	int r;
	__CPROVER_assert(ctx == &the_ctx && vo_init_ok, "M4: EVP_DigestVerify after a successful init");
	vo_verify_calls++;
	vo_sig = sigret;
	vo_sig_len = siglen;
	vo_tbs = tbs;
	vo_tbs_len = tbslen;
	vo_sig_is_der = vo_der_buf != NULL && sigret == vo_der_buf;
	vo_valid = nondet_bool();
	if (vo_valid)
		return 1;
	r = nondet_int();
	__CPROVER_assume(r <= 0);
	return r;
}

/* ---- BIGNUM: minimal-length big-endian byte string ---- */
BIGNUM *BN_bin2bn(const unsigned char *s, int len, BIGNUM *ret)
{
	BIGNUM *b;
	unsigned i, skip = 0, started = 0;

	__CPROVER_assert(ret == NULL && len >= 0 && (s != NULL || len == 0), "M4: BN_bin2bn arguments");
	VF_BOUND(len <= VO_IMAX, "BIGNUM longer than VO_IMAX");
	if (VO_FAILS())
		return NULL;
	b = malloc(sizeof(*b));
	__CPROVER_assume(b != NULL);
	for (i = 0; i < VO_IMAX; i++) {
		if (i < (unsigned)len && !started) {
			if (s[i] == 0)
				skip++;
			else
				started = 1;
		}
	}
	b->len = (unsigned)len - skip;
	for (i = 0; i < VO_IMAX; i++)
		b->b[i] = (i < b->len) ? s[skip + i] : 0;
	b->live = 1;
	vo_live++;
	return b;
}

int BN_num_bits(const BIGNUM *a)
{
	__CPROVER_assert(a != NULL && a->live, "M4: BN_num_bits on a live BIGNUM");
	return (int)(8 * a->len);           /* only (bits+7)/8 is used by libjwt */
}

int BN_bn2bin(const BIGNUM *a, unsigned char *to)
{
	unsigned i;
	__CPROVER_assert(a != NULL && a->live && to != NULL, "M4: BN_bn2bin arguments");
	for (i = 0; i < VO_IMAX; i++)
		if (i < a->len)
			to[i] = a->b[i];
	return (int)a->len;
}

void BN_free(BIGNUM *a)
{
	if (!a)
		return;
	__CPROVER_assert(a->live, "M4: BN_free of a live BIGNUM");
	a->live = 0;
	vo_live--;
}

/* ---- ECDSA_SIG ---- */
ECDSA_SIG *ECDSA_SIG_new(void)
{
	ECDSA_SIG *s;
	if (nondet_bool())
		return NULL;
	s = malloc(sizeof(*s));
	__CPROVER_assume(s != NULL);
	s->r = s->s = NULL;
	s->live = 1;
	vo_live++;
	return s;
}

void ECDSA_SIG_free(ECDSA_SIG *sig)
{
	if (!sig)
		return;
	__CPROVER_assert(sig->live, "M4: ECDSA_SIG_free of a live object");
	BN_free(sig->r);
	BN_free(sig->s);
	sig->live = 0;
	vo_live--;
}

int ECDSA_SIG_set0(ECDSA_SIG *sig, BIGNUM *r, BIGNUM *s)
{
	__CPROVER_assert(sig && sig->live && r && s, "M4: ECDSA_SIG_set0 arguments");
	BN_free(sig->r);
	BN_free(sig->s);
	sig->r = r;
	sig->s = s;
	return 1;
}

void ECDSA_SIG_get0(const ECDSA_SIG *sig, const BIGNUM **pr, const BIGNUM **ps)
{
	__CPROVER_assert(sig && sig->live, "M4: ECDSA_SIG_get0 on a live object");
	if (pr)
		*pr = sig->r;
	if (ps)
		*ps = sig->s;
}

/* abstract DER: 6 + |r| + |s| bytes */
int i2d_ECDSA_SIG(const ECDSA_SIG *sig, unsigned char **pp)
{
	unsigned i, n;
	__CPROVER_assert(sig && sig->live && sig->r && sig->s, "M4: i2d_ECDSA_SIG needs r and s");
	n = 6 + sig->r->len + sig->s->len;
	if (pp) {
		__CPROVER_assert(*pp != NULL, "M4: i2d_ECDSA_SIG output buffer");
		vo_der_buf = *pp;
		vo_r_len = sig->r->len;
		vo_s_len = sig->s->len;
		for (i = 0; i < VO_IMAX; i++) {
			vo_r[i] = sig->r->b[i];
			vo_s[i] = sig->s->b[i];
		}
		(*pp)[0] = 0x30;
		(*pp)[n - 1] = 0;            /* touches the last byte: the buffer must hold n bytes */
		*pp += n;
	}
	return (int)n;
}

static BIGNUM *vo_mk_bn(unsigned char *copy, unsigned *clen)
{
	BIGNUM *b = malloc(sizeof(*b));
	unsigned i, n = nondet_uint();

	__CPROVER_assume(b != NULL);
	__CPROVER_assume(n <= vo_width + 1 && n <= VO_IMAX);
	for (i = 0; i < VO_IMAX; i++) {
		b->b[i] = (i < n) ? nondet_uchar() : 0;
		copy[i] = b->b[i];
	}
	if (n > 0)
		__CPROVER_assume(b->b[0] != 0);        /* minimal length */
	b->len = n;
	*clen = n;
	b->live = 1;
	vo_live++;
	return b;
}

ECDSA_SIG *d2i_ECDSA_SIG(ECDSA_SIG **psig, const unsigned char **pp, long len)
{
	ECDSA_SIG *s;
	__CPROVER_assert(psig == NULL && pp && *pp && len > 0, "M4: d2i_ECDSA_SIG arguments");
	if (nondet_bool())
		return NULL;
	s = malloc(sizeof(*s));
	__CPROVER_assume(s != NULL);
	s->live = 1;
	vo_live++;
	s->r = vo_mk_bn(vo_dr, &vo_dr_len);
	s->s = vo_mk_bn(vo_ds, &vo_ds_len);
	*pp += len;
	return s;
}

/* ---- signing oracle ---- */
int EVP_DigestSign(EVP_MD_CTX *ctx, unsigned char *sigret, size_t *siglen, const unsigned char *tbs, size_t tbslen)
{
	VF_OBSERVE();
	unsigned i;
	__CPROVER_assert(ctx == &the_ctx && vo_init_ok && siglen != NULL, "M4: EVP_DigestSign after a successful init");
	if (nondet_bool())
		return 0;
	if (sigret == NULL) {
		size_t n = nondet_size_t();
		__CPROVER_assume(n >= 1 && n <= VO_RAWMAX);
		vo_rawsig_len = n;
		*siglen = n;
		return 1;
	}
	vo_sign_calls++;
	vo_tbs = tbs;
	vo_tbs_len = tbslen;
	__CPROVER_assert(*siglen >= vo_rawsig_len, "M4: EVP_DigestSign output buffer size");
	for (i = 0; i < VO_RAWMAX; i++) {
		vo_rawsig[i] = nondet_uchar();
		if (i < vo_rawsig_len)
			sigret[i] = vo_rawsig[i];
	}
	*siglen = vo_rawsig_len;
	return 1;
}

/* digest geometry (documented constants of SHA-2): a model so that code consulting it gets a verdict */
int EVP_MD_get_block_size(const EVP_MD *md)
{
	__CPROVER_assert(md != NULL, "M4: EVP_MD_get_block_size argument");
	return md == vo_sha256 ? 64 : 128;
}

int EVP_MD_get_size(const EVP_MD *md)
{
	__CPROVER_assert(md != NULL, "M4: EVP_MD_get_size argument");
	return md == vo_sha256 ? 32 : md == vo_sha384 ? 48 : 64;
}

unsigned char *HMAC(const EVP_MD *evp_md, const void *key, int key_len, const unsigned char *data, size_t data_len,
		    unsigned char *md, unsigned int *md_len)
{
	VF_OBSERVE();
	unsigned i, n = evp_md == vo_sha256 ? 32 : evp_md == vo_sha384 ? 48 : 64;
	static unsigned char static_md[64];
	__CPROVER_assert(evp_md != NULL && md_len != NULL && (key != NULL || key_len == 0), "M4: HMAC arguments");
	vo_hmac_md_owned = md != NULL;
	if (md == NULL)
		md = static_md;          /* documented: a static array is used - not thread safe */
	vo_hmac_calls++;
	vo_md = evp_md;
	vo_hmac_key = key;
	vo_hmac_keylen = key_len;
	vo_tbs = data;
	vo_tbs_len = data_len;
	if (nondet_bool())
		return NULL;
	for (i = 0; i < 64; i++)
		if (i < n)
			md[i] = nondet_uchar();
	*md_len = n;
	return md;
}

/* ---- error queue: per-thread state that OUTLIVES the call that filled it.  An earlier, unrelated
 * failure (another key, another token) may have left entries behind: what a peek returns is
 * arbitrary.  libjwt never clears the queue. ---- */
unsigned long ERR_peek_error(void) { return nondet_ulong(); }
unsigned long ERR_peek_last_error(void) { return nondet_ulong(); }
unsigned long ERR_get_error(void) { return nondet_ulong(); }
void ERR_clear_error(void) { }
