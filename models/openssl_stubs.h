/* M4 monitors (sign/verify part) */
#ifndef VF_OPENSSL_STUBS_H
#define VF_OPENSSL_STUBS_H
#include <openssl/evp.h>
#ifndef VO_IMAX
#define VO_IMAX 67          /* capacity of a model BIGNUM in bytes (P-521 field + 1) */
#endif
#define VO_RAWMAX 8         /* opaque (non-EC) signature length bound on the sign side */
struct bignum_st { unsigned char b[VO_IMAX]; unsigned len; int live; };   /* minimal big-endian bytes */
/* set whenever a stub answers "failed" by its own (nondeterministic) choice: lets a harness state
 * "the library succeeds whenever OpenSSL does" */
extern int vo_oracle_failed;
#define VO_FAILS() (nondet_bool() ? (vo_oracle_failed = 1) : 0)
extern int vo_key_type;                 /* EVP_PKEY_get_id() of the key object (symbolic) */
extern unsigned vo_verify_calls, vo_sign_calls, vo_hmac_calls;
extern const EVP_MD *vo_md;             /* digest given to Digest{Verify,Sign}Init */
extern const EVP_PKEY *vo_pkey;
extern int vo_init_ok;
extern int vo_pad, vo_pad_set, vo_salt, vo_salt_set;
extern const unsigned char *vo_tbs;
extern size_t vo_tbs_len;
extern const unsigned char *vo_sig;
extern size_t vo_sig_len;
extern int vo_valid;
extern int vo_sig_is_der;               /* the signature handed to the primitive is the DER made by i2d */
extern unsigned char vo_r[VO_IMAX], vo_s[VO_IMAX];    /* integers inside the last DER encoding */
extern unsigned vo_r_len, vo_s_len;
extern unsigned vo_width;               /* sign side: field width for the (r, s) the primitive yields */
extern unsigned char vo_dr[VO_IMAX], vo_ds[VO_IMAX];  /* integers d2i_ECDSA_SIG produced */
extern unsigned vo_dr_len, vo_ds_len;
extern unsigned char vo_rawsig[VO_RAWMAX];
extern size_t vo_rawsig_len;
extern const void *vo_hmac_key;
extern int vo_hmac_keylen;
extern int vo_hmac_md_owned;
extern long vo_live;                    /* live OpenSSL objects created by libjwt */
extern const EVP_MD *vo_sha256, *vo_sha384, *vo_sha512, *vo_mdnull;
#endif
