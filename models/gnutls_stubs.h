/* M5 monitors */
#ifndef VF_GNUTLS_STUBS_H
#define VF_GNUTLS_STUBS_H
#define VG_IMAX 66          /* widest field element (P-521) */
#define VG_RAWMAX 8         /* length bound of opaque (non-EC) signatures produced by the sign oracle */
extern int vg_key_pk;                 /* pk algorithm of the key behind jwt->key->pem (symbolic) */
extern int vg_live_handles, vg_import_failed;
extern int vg_der_live;
extern unsigned vg_verify_calls, vg_sign_calls, vg_hmac_calls, vg_encode_calls;
extern int vg_v_algo;
extern const unsigned char *vg_v_data;
extern unsigned vg_v_data_len;
extern const unsigned char *vg_v_sig;
extern unsigned vg_v_sig_len;
extern int vg_v_valid, vg_v_key_from_pem, vg_sig_is_encoded;
extern const char *vg_expected_pem;
extern unsigned char vg_r[VG_IMAX], vg_s[VG_IMAX];
extern unsigned vg_r_len, vg_s_len;
extern int vg_sign_flags, vg_sign_dig;
extern unsigned char vg_dec_r[VG_IMAX + 1], vg_dec_s[VG_IMAX + 1];
extern unsigned vg_dec_r_len, vg_dec_s_len, vg_width;
extern const unsigned char *vg_s_data;
extern unsigned vg_s_data_len;
extern unsigned char vg_rawsig[VG_RAWMAX];
extern unsigned vg_rawsig_len;
extern int vg_hmac_alg;
extern const void *vg_hmac_key;
extern size_t vg_hmac_keylen;
#endif
