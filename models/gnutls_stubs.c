/* M5 - stubs for the GnuTLS functions libjwt/gnutls/sign-verify.c calls, with monitors.
 *
 * Keys are tagged handles whose public-key algorithm is a symbolic value chosen by the harness
 * (vg_key_pk); import functions fail arbitrarily; the primitives are oracles:
 *   gnutls_pubkey_verify_data2   negative on failure, ZERO OR POSITIVE on success (as documented),
 *                                and it succeeds only for a signature algorithm compatible with the
 *                                key's pk algorithm (GNUTLS_E_INCOMPATIBLE_SIG_WITH_KEY otherwise)
 *   gnutls_encode_rs_value       abstract DER: records the (r, s) integers it was given
 *   gnutls_decode_rs_value       yields arbitrary minimal-length two's-complement integers r, s:
 *                                1..W+1 bytes, a leading 0x00 exactly when the top bit is set
 */
#include <string.h>
#include <stdlib.h>
#include <gnutls/gnutls.h>
#include <gnutls/crypto.h>
#include <gnutls/x509.h>
#include <gnutls/abstract.h>
#include "vf.h"
#ifdef PROP_C18
extern void vf_c18_observe(void);
#define VF_OBSERVE() vf_c18_observe()
#else
#define VF_OBSERVE() ((void)0)
#endif
#include "gnutls_stubs.h"

int vg_key_pk;
int vg_live_handles;
int vg_import_failed;
unsigned vg_verify_calls, vg_sign_calls, vg_hmac_calls, vg_encode_calls;
int vg_v_algo;
const unsigned char *vg_v_data;
unsigned vg_v_data_len;
const unsigned char *vg_v_sig;
unsigned vg_v_sig_len;
int vg_v_valid;
int vg_v_key_from_pem;
const char *vg_expected_pem;
unsigned char vg_r[VG_IMAX], vg_s[VG_IMAX];
unsigned vg_r_len, vg_s_len;
static unsigned char vg_der_token;       /* what encode_rs_value hands out */
int vg_sig_is_encoded;
int vg_sign_flags, vg_sign_dig, vg_sign_pk_seen;
unsigned char vg_dec_r[VG_IMAX + 1], vg_dec_s[VG_IMAX + 1];
unsigned vg_dec_r_len, vg_dec_s_len;
unsigned vg_width;                       /* field width in bytes for decode_rs_value */
const unsigned char *vg_s_data;
unsigned vg_s_data_len;
unsigned char vg_rawsig[VG_RAWMAX];
unsigned vg_rawsig_len;
int vg_hmac_alg;
const void *vg_hmac_key;
size_t vg_hmac_keylen;

struct vg_key { int imported; int from_pem; int is_priv; };
static struct vg_key vg_pub, vg_priv, vg_priv2;
static int vg_priv_used;

int vg_der_live;                         /* the buffer gnutls_encode_rs_value handed out is not yet released */

static void vg_free(void *p)
{
	if (p == (void *)&vg_der_token) {
		__CPROVER_assert(vg_der_live, "double release of the buffer made by gnutls_encode_rs_value");
		vg_der_live = 0;
		return;
	}
	if (p == (void *)vg_dec_r || p == (void *)vg_dec_s || p == (void *)vg_rawsig)
		return;
	free(p);
}
#undef gnutls_free
gnutls_free_function gnutls_free = vg_free;

/* the other allocator hooks GnuTLS exports as function-pointer variables (may fail, as malloc may) */
static void *vg_malloc(size_t n) { void *p; if (nondet_bool()) return NULL; p = malloc(n); __CPROVER_assume(p != NULL); return p; }
static void *vg_calloc(size_t a, size_t b) { void *p; if (nondet_bool()) return NULL; p = calloc(a, b); __CPROVER_assume(p != NULL); return p; }
static char *vg_strdup(const char *s)
{
	size_t n = strlen(s) + 1;
	char *p = vg_malloc(n);
	if (p)
		memcpy(p, s, n);
	return p;
}
#undef gnutls_malloc
#undef gnutls_calloc
#undef gnutls_strdup
gnutls_alloc_function gnutls_malloc = vg_malloc;
gnutls_calloc_function gnutls_calloc = vg_calloc;
char *(*gnutls_strdup)(const char *) = vg_strdup;

int gnutls_pubkey_init(gnutls_pubkey_t *key)
{
	if (nondet_bool()) {
		vg_import_failed = 1;
		return -1;
	}
	vg_pub.imported = 0;
	vg_live_handles++;
	*key = (gnutls_pubkey_t)&vg_pub;
	return 0;
}

void gnutls_pubkey_deinit(gnutls_pubkey_t key)
{
	if (key == (gnutls_pubkey_t)&vg_pub)
		vg_live_handles--;
}

int gnutls_privkey_init(gnutls_privkey_t *key)
{
	if (nondet_bool()) {
		vg_import_failed = 1;
		return -1;
	}
	vg_live_handles++;
	if (!vg_priv_used) {
		vg_priv_used = 1;
		vg_priv.imported = 0;
		*key = (gnutls_privkey_t)&vg_priv;
	} else {
		vg_priv2.imported = 0;
		*key = (gnutls_privkey_t)&vg_priv2;
	}
	return 0;
}

void gnutls_privkey_deinit(gnutls_privkey_t key)
{
	if (key == (gnutls_privkey_t)&vg_priv || key == (gnutls_privkey_t)&vg_priv2)
		vg_live_handles--;
}

static int vg_pem_ok(const gnutls_datum_t *d)
{
	return d && vg_expected_pem && d->data == (const unsigned char *)vg_expected_pem &&
	       d->size == strlen(vg_expected_pem);
}

int gnutls_pubkey_import(gnutls_pubkey_t key, const gnutls_datum_t *data, gnutls_x509_crt_fmt_t format)
{
	VF_OBSERVE();
	struct vg_key *k = (struct vg_key *)key;
	__CPROVER_assert(format == GNUTLS_X509_FMT_PEM, "M5: keys are imported as PEM");
	if (nondet_bool())
		return -1;                 /* e.g. the PEM holds a private key */
	k->imported = 1;
	k->from_pem = vg_pem_ok(data);
	return 0;
}

int gnutls_privkey_import_x509_raw(gnutls_privkey_t pkey, const gnutls_datum_t *data,
				   gnutls_x509_crt_fmt_t format, const char *password, unsigned int flags)
{
	struct vg_key *k = (struct vg_key *)pkey;
	if (nondet_bool()) {
		vg_import_failed = 1;   /* neither a public nor a private key: cannot come from an imported item */
		return -1;
	}
	k->imported = 1;
	k->is_priv = 1;
	k->from_pem = vg_pem_ok(data);
	return 0;
}

int gnutls_pubkey_import_privkey(gnutls_pubkey_t key, gnutls_privkey_t pkey, unsigned int usage, unsigned int flags)
{
	struct vg_key *k = (struct vg_key *)key, *p = (struct vg_key *)pkey;
	if (nondet_bool()) {
		vg_import_failed = 1;
		return -1;
	}
	k->imported = p->imported;
	k->from_pem = p->from_pem;
	return 0;
}

int gnutls_pubkey_get_pk_algorithm(gnutls_pubkey_t key, unsigned int *bits)
{
	return vg_key_pk;
}

int gnutls_privkey_get_pk_algorithm(gnutls_privkey_t key, unsigned int *bits)
{
	return vg_key_pk;
}

static int vg_sign_compatible(int algo, int pk)
{
	switch (algo) {
	case GNUTLS_SIGN_RSA_SHA256: case GNUTLS_SIGN_RSA_SHA384: case GNUTLS_SIGN_RSA_SHA512:
		return pk == GNUTLS_PK_RSA;
	case GNUTLS_SIGN_RSA_PSS_SHA256: case GNUTLS_SIGN_RSA_PSS_SHA384: case GNUTLS_SIGN_RSA_PSS_SHA512:
		return pk == GNUTLS_PK_RSA || pk == GNUTLS_PK_RSA_PSS;
	case GNUTLS_SIGN_ECDSA_SHA256: case GNUTLS_SIGN_ECDSA_SHA384: case GNUTLS_SIGN_ECDSA_SHA512:
		return pk == GNUTLS_PK_ECDSA;
	case GNUTLS_SIGN_EDDSA_ED25519:
		return pk == GNUTLS_PK_EDDSA_ED25519;
	case GNUTLS_SIGN_EDDSA_ED448:
		return pk == GNUTLS_PK_EDDSA_ED448;
	default:
		return 0;
	}
}

int gnutls_pubkey_verify_data2(gnutls_pubkey_t pubkey, gnutls_sign_algorithm_t algo, unsigned int flags,
			       const gnutls_datum_t *data, const gnutls_datum_t *signature)
{
	VF_OBSERVE();
	struct vg_key *k = (struct vg_key *)pubkey;

	vg_verify_calls++;
	vg_v_algo = algo;
	vg_v_data = data->data;
	vg_v_data_len = data->size;
	vg_v_sig = signature->data;
	vg_v_sig_len = signature->size;
	vg_sig_is_encoded = signature->data == &vg_der_token;
	vg_v_key_from_pem = (pubkey == (gnutls_pubkey_t)&vg_pub) && k->imported && k->from_pem;
	vg_v_valid = 0;
	if (!vg_sign_compatible(algo, vg_key_pk))
		return GNUTLS_E_INCOMPATIBLE_SIG_WITH_KEY;
	if (nondet_bool()) {
		int r = nondet_int();
		__CPROVER_assume(r >= 0);
		vg_v_valid = 1;
		return r;
	}
	return GNUTLS_E_PK_SIG_VERIFY_FAILED;
}

int gnutls_encode_rs_value(gnutls_datum_t *sig_value, const gnutls_datum_t *r, const gnutls_datum_t *s)
{
	unsigned i;

	vg_encode_calls++;
	vg_r_len = r->size;
	vg_s_len = s->size;
	for (i = 0; i < VG_IMAX; i++) {
		vg_r[i] = i < r->size ? r->data[i] : 0;
		vg_s[i] = i < s->size ? s->data[i] : 0;
	}
	if (nondet_bool()) {
		sig_value->data = NULL;
		sig_value->size = 0;
		return -1;
	}
	sig_value->data = &vg_der_token;
	sig_value->size = 1;
	vg_der_live = 1;
	return 0;
}

static unsigned vg_mk_int(unsigned char *buf)
{
	unsigned n = nondet_uint(), i;

	__CPROVER_assume(n >= 1 && n <= vg_width + 1);
	for (i = 0; i < VG_IMAX + 1; i++)
		buf[i] = nondet_uchar();
	/* minimal two's-complement encoding of a positive integer below 2^(8*width) */
	if (n == vg_width + 1)
		__CPROVER_assume(buf[0] == 0 && (buf[1] & 0x80));
	else if (n > 1)
		__CPROVER_assume(!(buf[0] == 0 && !(buf[1] & 0x80)));
	if (n <= vg_width)
		__CPROVER_assume(!(buf[0] & 0x80));
	return n;
}

int gnutls_decode_rs_value(const gnutls_datum_t *sig_value, gnutls_datum_t *r, gnutls_datum_t *s)
{
	if (nondet_bool())
		return -1;
	vg_dec_r_len = vg_mk_int(vg_dec_r);
	vg_dec_s_len = vg_mk_int(vg_dec_s);
	r->data = vg_dec_r;
	r->size = vg_dec_r_len;
	s->data = vg_dec_s;
	s->size = vg_dec_s_len;
	return 0;
}

int gnutls_privkey_sign_data(gnutls_privkey_t signer, gnutls_digest_algorithm_t hash, unsigned int flags,
			     const gnutls_datum_t *data, gnutls_datum_t *signature)
{
	VF_OBSERVE();
	struct vg_key *k = (struct vg_key *)signer;
	unsigned i, n;

	vg_sign_calls++;
	vg_sign_dig = hash;
	vg_sign_flags = flags;
	vg_s_data = data->data;
	vg_s_data_len = data->size;
	vg_v_key_from_pem = k->imported && k->from_pem;
	if (nondet_bool())
		return -1;
	n = nondet_uint();
	__CPROVER_assume(n >= 1 && n <= VG_RAWMAX);
	for (i = 0; i < VG_RAWMAX; i++)
		vg_rawsig[i] = nondet_uchar();
	vg_rawsig_len = n;
	signature->data = vg_rawsig;
	signature->size = n;
	return 0;
}

unsigned gnutls_hmac_get_len(gnutls_mac_algorithm_t algorithm)
{
	switch (algorithm) {
	case GNUTLS_MAC_SHA256: return 32;
	case GNUTLS_MAC_SHA384: return 48;
	case GNUTLS_MAC_SHA512: return 64;
	default: return 0;
	}
}

int gnutls_hmac_fast(gnutls_mac_algorithm_t algorithm, const void *key, size_t keylen,
		     const void *text, size_t textlen, void *digest)
{
	VF_OBSERVE();
	unsigned i, n = gnutls_hmac_get_len(algorithm);

	vg_hmac_calls++;
	vg_hmac_alg = algorithm;
	vg_hmac_key = key;
	vg_hmac_keylen = keylen;
	vg_s_data = text;
	vg_s_data_len = (unsigned)textlen;
	if (nondet_bool())
		return -1;
	for (i = 0; i < 64; i++)
		if (i < n)
			((unsigned char *)digest)[i] = nondet_uchar();
	return 0;
}

/* one-shot digest: arbitrary output of the digest's length, may fail */
int gnutls_hash_fast(gnutls_digest_algorithm_t algorithm, const void *text, size_t textlen, void *digest)
{
	unsigned i, n = algorithm == GNUTLS_DIG_SHA256 ? 32 : algorithm == GNUTLS_DIG_SHA384 ? 48 : algorithm == GNUTLS_DIG_SHA512 ? 64 : 0;
	VF_OBSERVE();
	if (nondet_bool())
		return -1;
	for (i = 0; i < 64; i++)
		if (i < n)
			((unsigned char *)digest)[i] = nondet_uchar();
	return 0;
}
unsigned gnutls_hash_get_len(gnutls_digest_algorithm_t algorithm)
{
	return algorithm == GNUTLS_DIG_SHA256 ? 32 : algorithm == GNUTLS_DIG_SHA384 ? 48 : algorithm == GNUTLS_DIG_SHA512 ? 64 : 0;
}
