/* Common declarations for the CBMC environment models and harnesses (trusted base, DESIGN.md §3) */
#ifndef VF_H
#define VF_H

#include <stddef.h>
#include <stdint.h>
#include <jansson.h>
#include <jwt.h>
#include "jwt-private.h"

/* nondeterministic values: CBMC treats body-less nondet_* functions as fresh symbolic inputs */
_Bool nondet_bool(void);
int nondet_int(void);
unsigned nondet_uint(void);
unsigned char nondet_uchar(void);
char nondet_char(void);
long nondet_long(void);
long long nondet_llong(void);
size_t nondet_size_t(void);
void *nondet_ptr(void);

#define VF_ASSERT(c, msg) __CPROVER_assert((c), msg)
#define VF_ASSUME(c) __CPROVER_assume(c)
/* PROP: an assertion of the property under check.
 * REACH: vacuity guard - a reachability witness, encoded as a deliberately false assertion that
 * MUST come back FAILED (the runner treats a "reach:" property that holds as a vacuous harness). */
#define PROP(c, msg) __CPROVER_assert((c), msg)
#ifdef VF_NO_REACH   /* fault-injection runs: the witnesses of the fault-free harness do not apply */
#define REACH(c, msg) ((void)0)
#else
#define REACH(c, msg) __CPROVER_assert(!(c), "reach: " msg)
#endif
/* optional witness: recorded in evidence, never warned about (e.g. "the fault was injected" in a
 * fault-injection query whose index lies beyond the allocations the scenario performs) */
#define REACHF(c, msg) __CPROVER_assert(!(c), "reach-opt: " msg)
/* a bound of the encoding was exceeded: reported as a failed property "bound: ...", never a pass */
#define VF_BOUND(c, msg) do { __CPROVER_assert((c), "bound: " msg); __CPROVER_assume(c); } while (0)

/* ---------------- M1 allocator ---------------- */
#ifndef VF_CAP
#define VF_CAP 32
#endif
extern unsigned vf_alloc_no;     /* allocation requests so far (libjwt + jansson model)   */
extern int vf_fail_at;           /* index of the request that fails, -1 = none            */
extern int vf_faulted;           /* set once the fault has been injected                  */
extern long vf_live;             /* live blocks handed out by vf_malloc                   */
extern unsigned vf_cls;          /* mask of struct classes currently offered as typed objects */
#define VF_CLS_JWT 1u
#define VF_CLS_CHECKER 2u
#define VF_CLS_BUILDER 4u
#define VF_CLS_ITEM 8u
#define VF_CLS_SET 16u
void *vf_malloc(size_t n);
void vf_free(void *p);
int vf_tick(void);               /* consume one allocation index; 0 = this one fails      */
void vf_install_alloc(void);     /* jwt_set_alloc(vf_malloc, vf_free)                     */

/* ---------------- M2 jansson model ---------------- */
#ifndef VJ_MAXM
#define VJ_MAXM 4
#endif
#ifndef VJ_KLEN
#define VJ_KLEN 7
#endif
#ifndef VJ_SLEN
#define VJ_SLEN 8
#endif
#ifndef VJ_DUMPLEN
#define VJ_DUMPLEN 4
#endif

typedef struct vj {
	json_t j;                       /* type + refcount, must be first                */
	json_int_t ival;                /* JSON_INTEGER                                  */
	double rval;                    /* JSON_REAL                                     */
	unsigned n;                     /* JSON_ARRAY: number of elements in val[0..n)   */
	unsigned nk;                    /* number of non-NULL val[] entries              */
	unsigned weight;                /* number of nodes in this subtree               */
	unsigned char dead;             /* released (lifetime is flattened, see model)   */
	unsigned char attached;         /* member of another container                   */
	unsigned char nul_inside;       /* JSON_STRING decoded with JSON_ALLOW_NUL whose text goes on after
	                                   a U+0000: the C string s is then only a prefix of the value */
	struct vj *val[VJ_MAXM];        /* object: slot k value (NULL = absent)          */
	char key[VJ_MAXM][VJ_KLEN + 1]; /* object: slot k key text                       */
	char s[VJ_SLEN + 1];            /* JSON_STRING                                   */
} vj_t;

#define VJ(j_) ((vj_t *)(j_))
extern long vj_live;                 /* live JSON nodes                               */
extern unsigned vj_parse_calls;      /* number of json_load* calls so far             */
extern unsigned vj_dump_calls;       /* number of json_dumps calls so far             */
extern size_t vj_parse_flags;        /* flags of the json_load* call being served     */
extern const void *vf_untrusted_text; /* object holding parser error text (env.c)      */

vj_t *vj_new(json_type t);           /* consumes an allocation index when jansson is hooked */
void vj_attach_member(vj_t *o, unsigned k, vj_t *c);  /* harness-side construction of documents */
/* havoc helpers: arbitrary values within the shape bound */
json_t *vj_havoc_scalar_or_empty(void);                  /* any JSON type; containers empty */
json_t *vj_havoc_value(int depth);                       /* containers filled to depth      */
json_t *vj_havoc_object(const char *const *alpha, unsigned nalpha, int depth);
json_t *vj_havoc_array(unsigned maxn, int depth);
int vj_equal(const json_t *a, const json_t *b);
int vj_equal_copy(const json_t *a, const json_t *b);      /* tree vs. its model-made copy    */
json_t *vj_clone(const json_t *value);                   /* clone of a depth-1 tree         */          /* deep equality (reference)       */

/* supplied by each harness (or models/parse_default.c): result of the n-th json_load* call.   *
 * buf/len are the bytes libjwt asked jansson to parse (NULL for file/FILE* sources).          */
json_t *vf_parse(unsigned call_no, const char *buf, size_t len, size_t flags);
/* supplied by each harness (or default): observe the tree at json_dumps time                   */
void vf_dump_hook(unsigned call_no, const json_t *tree, size_t flags, const char *text);

/* ---------------- M6 environment ---------------- */
extern time_t vf_now;                /* value returned by time()                      */

#endif
