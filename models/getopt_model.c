/* M6b - model of GNU getopt_long for the invocation forms the tools document:
 *   -x   -xARG   -x ARG   clustered flags (-qv)   --name   --name=ARG   --name ARG   --
 * Differences from glibc, stated: no argv permutation (parsing stops at the first non-option
 * word, i.e. options must precede the tokens, as the usage texts show), no abbreviated long
 * options, opterr messages are dropped.  Validated against glibc by vf/selftest.py. */
#include <getopt.h>
#include <string.h>
#include "vf.h"

char *optarg;
int optind = 1, opterr = 1, optopt;
static int vg_pos;          /* position inside a cluster of short options */

int getopt_long(int argc, char *const argv[], const char *optstring, const struct option *longopts, int *longindex)
{
	const char *w;
	unsigned i;

	optarg = NULL;
	if (optind >= argc)
		return -1;
	w = argv[optind];
	if (vg_pos == 0) {
		if (w[0] != '-' || w[1] == '\0')
			return -1;                      /* non-option word (or a lone "-") */
		if (w[1] == '-' && w[2] == '\0') {
			optind++;                       /* "--" ends the options */
			return -1;
		}
		if (w[1] == '-') {
			/* long option: exact name match, optional =ARG */
			const char *name = w + 2;
			unsigned nlen = 0;
			while (name[nlen] && name[nlen] != '=')
				nlen++;
			for (i = 0; longopts[i].name; i++) {
				if (strlen(longopts[i].name) == nlen && strncmp(longopts[i].name, name, nlen) == 0) {
					optind++;
					if (longindex)
						*longindex = (int)i;
					if (longopts[i].has_arg == required_argument) {
						if (name[nlen] == '=')
							optarg = (char *)name + nlen + 1;
						else if (optind < argc)
							optarg = argv[optind++];
						else
							return optstring[0] == ':' ? ':' : '?';
					} else if (name[nlen] == '=') {
						return '?';     /* argument given to a flag */
					}
					if (longopts[i].flag) {
						*longopts[i].flag = longopts[i].val;
						return 0;
					}
					return longopts[i].val;
				}
			}
			optind++;
			return '?';
		}
		vg_pos = 1;
	}
	{
		char c = w[vg_pos];
		const char *p = NULL;
		for (i = 0; optstring[i]; i++)
			if (optstring[i] == c && c != ':')
				p = optstring + i;
		vg_pos++;
		if (!p) {
			optopt = c;
			if (w[vg_pos] == '\0') {
				optind++;
				vg_pos = 0;
			}
			return '?';
		}
		if (p[1] == ':') {
			if (w[vg_pos] != '\0') {
				optarg = (char *)w + vg_pos;   /* -xARG */
				optind++;
			} else if (optind + 1 < argc) {
				optarg = argv[optind + 1];      /* -x ARG */
				optind += 2;
			} else {
				optind++;
				vg_pos = 0;
				optopt = c;
				return optstring[0] == ':' ? ':' : '?';
			}
			vg_pos = 0;
			return c;
		}
		if (w[vg_pos] == '\0') {
			optind++;
			vg_pos = 0;
		}
		return c;
	}
}
