#!/bin/sh
# run every claimed check once (tier = $1, default quick) and summarise; used before committing evidence
cd "$(dirname "$0")" || exit 2
tier=${1:-quick}
for p in $(python3 -c "import json; print(' '.join(c['property_id'] for c in json.load(open('MANIFEST.json'))['checks']))"); do
  s=$(date +%s)
  ./check $p --tier $tier > /tmp/runall.$p.log 2>&1
  rc=$?
  e=$(date +%s)
  echo "$p rc=$rc wall=$((e-s))s $(grep -c VACUITY /tmp/runall.$p.log) vacuity-warnings $(grep '^PASS\|^INCONCLUSIVE\|^VIOLATION' /tmp/runall.$p.log | head -2 | tr '\n' ' ')"
done
