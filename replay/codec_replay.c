/* Native replay of a codec counterexample against the REAL libjwt sources (ASan+UBSan build):
 *   codec_replay decode <hex of the text>     codec_replay encode <hex of the bytes>
 * exits 0 when the real code agrees with the independent RFC 4648 section 5 reference (written
 * here again, not shared with the harness), 1 on a mismatch; a sanitizer report is non-zero too. */
#include <stdio.h>
#include <stdlib.h>
#include <string.h>

int jwt_base64uri_encode(char **_dst, const char *plain, int plain_len);
void *jwt_base64uri_decode(const char *src, int *ret_len);

static int val(unsigned char c)
{
	if (c >= 'A' && c <= 'Z') return c - 'A';
	if (c >= 'a' && c <= 'z') return c - 'a' + 26;
	if (c >= '0' && c <= '9') return c - '0' + 52;
	if (c == '-' || c == '+') return 62;
	if (c == '_' || c == '/') return 63;
	return -1;
}

static int ref_decode(const char *s, unsigned char *out)
{
	size_t n = strlen(s), m = 0, i;
	unsigned acc = 0, bits = 0, o = 0;
	while (m < n && s[m] != '=') {
		if (val((unsigned char)s[m]) < 0)
			return -1;
		m++;
	}
	if ((n & 3) == 1 || (m * 6) / 8 == 0)
		return -1;
	for (i = 0; i < m; i++) {
		acc = (acc << 6) | (unsigned)val((unsigned char)s[i]);
		bits += 6;
		if (bits >= 8) {
			bits -= 8;
			out[o++] = (acc >> bits) & 0xff;
		}
	}
	return (int)((m * 6) / 8);
}

static const char A[] = "ABCDEFGHIJKLMNOPQRSTUVWXYZabcdefghijklmnopqrstuvwxyz0123456789-_";

static size_t ref_encode(const unsigned char *in, size_t n, char *out)
{
	size_t i, o = 0;
	for (i = 0; i < n; i += 3) {
		unsigned b0 = in[i], b1 = i + 1 < n ? in[i + 1] : 0, b2 = i + 2 < n ? in[i + 2] : 0;
		out[o++] = A[b0 >> 2];
		out[o++] = A[((b0 & 3) << 4) | (b1 >> 4)];
		if (i + 1 < n) out[o++] = A[((b1 & 15) << 2) | (b2 >> 6)];
		if (i + 2 < n) out[o++] = A[b2 & 63];
	}
	out[o] = 0;
	return o;
}

int main(int argc, char **argv)
{
	unsigned char buf[256], ref[256];
	char enc[512];
	size_t n, i;

	if (argc != 3)
		return 2;
	n = strlen(argv[2]) / 2;
	if (n > 200)
		return 2;
	for (i = 0; i < n; i++) {
		unsigned v;
		sscanf(argv[2] + 2 * i, "%2x", &v);
		buf[i] = (unsigned char)v;
	}
	buf[n] = 0;
	if (!strcmp(argv[1], "decode")) {
		int dl = -1, rn = ref_decode((const char *)buf, ref);
		unsigned char *out = jwt_base64uri_decode((const char *)buf, &dl);
		if (rn < 0) {
			printf("reference: reject; real: %s\n", out ? "ACCEPTED" : "rejected");
			return out ? 1 : 0;
		}
		printf("reference: %d bytes; real: %s (%d bytes)\n", rn, out ? "accepted" : "REJECTED", dl);
		if (!out || dl != rn || memcmp(out, ref, rn))
			return 1;
		out[dl] = 0;
		return 0;
	} else {
		char *dst = NULL;
		int r = jwt_base64uri_encode(&dst, (const char *)buf, (int)n);
		size_t rn = ref_encode(buf, n, enc);
		printf("reference: %s; real: %s (ret %d)\n", enc, dst ? dst : "(null)", r);
		return (r < 0 || !dst || strcmp(dst, enc) || strlen(dst) != rn) ? 1 : 0;
	}
}
