/* Conformance of the getopt_long model (models/getopt_model.c) with glibc's getopt_long, on the
 * invocation forms the tools document (options before the tokens; no abbreviated long names - the
 * two differences the model states).  Same two-sided scheme as json_conf.c: run natively against
 * glibc to produce the expected observations, then decided by CBMC on the model. */
#include <string.h>
#include <getopt.h>
#ifndef VF_MODEL_SIDE
#include <stdio.h>
#endif

#define NOBS 200
static long obs[NOBS];
static unsigned nobs;
#define O(x) do { if (nobs < NOBS) obs[nobs++] = (long)(x); } while (0)

static const char optstr[] = "a:hk:lqv";
static const struct option opttbl[] = {
	{ "help",      no_argument,       NULL, 'h' },
	{ "list",      no_argument,       NULL, 'l' },
	{ "algorithm", required_argument, NULL, 'a' },
	{ "key",       required_argument, NULL, 'k' },
	{ "quiet",     no_argument,       NULL, 'q' },
	{ "verbose",   no_argument,       NULL, 'v' },
	{ NULL, 0, 0, 0 },
};

static void run(int argc, char **argv)
{
	int c, n = 0;
#ifdef VF_MODEL_SIDE
	optind = 1;
#else
	optind = 0;             /* glibc: full re-initialisation */
#endif
	opterr = 0;
	while (n++ < 6 && (c = getopt_long(argc, argv, optstr, opttbl, NULL)) != -1) {
		O(c);
		O(optarg ? (long)(unsigned char)optarg[0] + 256 * (long)strlen(optarg) : -1);
	}
	O(-1000);
	O(optind);
}

#define RUN(...) do { static char *v[] = { "prog", __VA_ARGS__, NULL }; run((int)(sizeof(v) / sizeof(v[0])) - 1, v); } while (0)

static void run_all(void)
{
	RUN("-q", "tok");
	RUN("-aES256", "tok");
	RUN("-a", "ES256", "tok");
	RUN("--algorithm=ES256", "tok");
	RUN("--algorithm", "ES256", "tok");
	RUN("-qv", "-k", "f", "tok");
	RUN("-qkf", "tok");
	RUN("--quiet", "--verbose", "tok", "tok2");
	RUN("-x", "tok");
	RUN("--bogus", "tok");
	RUN("-k");
	RUN("--key");
	RUN("--quiet=3", "tok");
	RUN("--", "-q");
	RUN("-");
	RUN("-h");
	RUN("-l", "--help");
	RUN("tok");
	RUN("--key=", "tok");
	RUN("-q", "--", "tok");
	{
		static char *v[] = { "prog", NULL };
		run(1, v);
	}
}

#ifdef VF_MODEL_SIDE
#include "getopt_conf_expected.h"
int main(void)
{
	unsigned i;
	run_all();
	__CPROVER_assert(nobs == GETOPT_CONF_N, "conformance: same number of observations as glibc getopt_long");
	for (i = 0; i < GETOPT_CONF_N; i++)
		__CPROVER_assert(obs[i] == getopt_conf_expected[i], "conformance: model observation equals glibc's");
	return 0;
}
#else
int main(void)
{
	unsigned i;
	run_all();
	printf("#define GETOPT_CONF_N %u\nstatic const long getopt_conf_expected[GETOPT_CONF_N] = {", nobs);
	for (i = 0; i < nobs; i++)
		printf("%s%ld", i ? ", " : " ", obs[i]);
	printf(" };\n");
	return nobs >= NOBS;
}
#endif
