/* Conformance of the JSON model M2 (models/jansson_model.c) with the real jansson.
 *
 * The SAME scripted scenarios (public jansson API only) are
 *   1. compiled natively against the installed libjansson and run: the observations are printed as
 *      a C initialiser (json_conf_expected.h, regenerated on every run), and
 *   2. compiled with goto-cc against the model and decided by CBMC: every observation must equal
 *      the one the real library produced.
 * Scenarios stay inside the model's capacities (<= 4 members, keys <= 7, strings <= 8 bytes).
 * Only container semantics are compared - parsing and printing are oracles in M2 and not exercised. */
#include <string.h>
#include <jansson.h>
#ifndef VF_MODEL_SIDE
#include <stdio.h>
#endif

#define NOBS 160
static long obs[NOBS];
static unsigned nobs;
#define O(x) do { if (nobs < NOBS) obs[nobs++] = (long)(x); } while (0)

static long ival(json_t *o, const char *k) { return (long)json_integer_value(json_object_get(o, k)); }
static int seq(const char *a, const char *b) { return a && b && strcmp(a, b) == 0; }

static void s_object_basics(void)
{
	json_t *o = json_object(), *v;
	O(json_object_size(o));
	O(json_object_set_new(o, "a", json_integer(1)));
	O(json_object_set_new(o, "b", json_string("x")));
	O(json_object_size(o));
	O(ival(o, "a"));
	O(seq(json_string_value(json_object_get(o, "b")), "x"));
	O(json_object_get(o, "c") == NULL);
	O(json_object_get(o, NULL) == NULL);
	O(json_object_set_new(o, "a", json_integer(5)));        /* replace */
	O(json_object_size(o));
	O(ival(o, "a"));
	O(json_object_set_new(o, "n", NULL));                   /* -1 */
	O(json_object_set_new(o, NULL, json_integer(3)));       /* -1, value consumed */
	O(json_object_set_new(o, "self", json_incref(o)) );     /* -1: object == value */
	O(json_object_del(o, "zz"));                            /* -1 */
	O(json_object_del(o, "a"));
	O(json_object_size(o));
	O(json_object_get(o, "a") == NULL);
	v = json_integer(9);
	O(json_object_set(o, "k", v));                          /* incref variant */
	O((long)v->refcount);
	json_decref(v);
	O(ival(o, "k"));
	O(json_object_clear(o));
	O(json_object_size(o));
	O(json_object_size(NULL));
	O(json_integer_value(NULL));
	O(json_string_value(NULL) == NULL);
	O(json_object_get(json_true(), "a") == NULL);
	json_decref(o);
}

static void s_updates(void)
{
	json_t *o = json_object(), *p = json_object(), *n1, *n2;
	json_object_set_new(o, "a", json_integer(1));
	json_object_set_new(o, "b", json_integer(2));
	json_object_set_new(p, "b", json_integer(20));
	json_object_set_new(p, "c", json_integer(30));
	O(json_object_update_missing(o, p));
	O(json_object_size(o)); O(ival(o, "b")); O(ival(o, "c"));
	O(json_object_update_existing(o, p));
	O(ival(o, "b"));
	json_object_set_new(p, "a", json_integer(10));
	O(json_object_update(o, p));
	O(json_object_size(o)); O(ival(o, "a")); O(ival(o, "b")); O(ival(o, "c"));
	O(json_object_update(o, json_true()));                  /* -1 */
	O(json_object_update(NULL, p));                         /* -1 */
	json_decref(o);
	json_decref(p);
	/* recursive: object-valued members on both sides are merged, everything else overwritten */
	o = json_object(); p = json_object();
	n1 = json_object(); n2 = json_object();
	json_object_set_new(n1, "k", json_integer(1));
	json_object_set_new(n1, "m", json_integer(2));
	json_object_set_new(n2, "j", json_integer(3));
	json_object_set_new(n2, "m", json_integer(4));
	json_object_set_new(o, "o", n1);
	json_object_set_new(o, "s", json_integer(7));
	json_object_set_new(p, "o", n2);
	json_object_set_new(p, "s", json_object());
	O(json_object_update_recursive(o, p));
	O(json_object_size(o));
	O(json_object_size(json_object_get(o, "o")));
	O(ival(json_object_get(o, "o"), "k")); O(ival(json_object_get(o, "o"), "j")); O(ival(json_object_get(o, "o"), "m"));
	O(json_is_object(json_object_get(o, "s")));
	O(json_object_get(o, "o") == n1);                       /* merged in place, not replaced */
	json_decref(o);
	/* plain update replaces the member object */
	o = json_object();
	n1 = json_object();
	json_object_set_new(n1, "k", json_integer(1));
	json_object_set_new(o, "o", n1);
	O(json_object_update(o, p));
	O(json_object_get(o, "o") == n2);
	O(json_object_size(json_object_get(o, "o")));
	json_decref(o);
	json_decref(p);
}

static void s_copies(void)
{
	json_t *o = json_object(), *c, *d, *i = json_integer(4);
	json_object_set(o, "i", i);
	json_object_set_new(o, "s", json_string("ab"));
	c = json_copy(o);
	d = json_deep_copy(o);
	O(c != o); O(d != o);
	O(json_object_get(c, "i") == i);                        /* shallow: same child */
	O(json_object_get(d, "i") != i);                        /* deep: own child */
	O((long)i->refcount);
	O(json_integer_set(i, 40));
	O(ival(o, "i")); O(ival(c, "i")); O(ival(d, "i"));
	O(json_integer_set(json_object_get(o, "s"), 1));        /* -1: not an integer */
	O(json_equal(o, c)); O(json_equal(o, d));
	json_object_set_new(c, "x", json_true());
	O(json_object_size(o)); O(json_object_size(c));
	O(json_equal(o, c));
	O(json_copy(NULL) == NULL);
	O(json_copy(json_true()) == json_true());
	json_decref(i);
	json_decref(c);
	O(ival(o, "i"));
	json_decref(d);
	json_decref(o);
}

static void s_arrays_strings(void)
{
	json_t *a = json_array(), *s = json_string("hello");
	O(json_array_size(a));
	O(json_array_append_new(a, json_integer(1)));
	O(json_array_append_new(a, json_string("q")));
	O(json_array_append_new(a, NULL));                      /* -1 */
	O(json_array_size(a));
	O(json_integer_value(json_array_get(a, 0)));
	O(seq(json_string_value(json_array_get(a, 1)), "q"));
	O(json_array_get(a, 2) == NULL);
	O(json_array_get(NULL, 0) == NULL);
	O(json_array_append_new(json_true(), json_integer(1))); /* -1 */
	O(json_array_clear(a)); O(json_array_size(a));
	O(json_string_length(s));
	O(json_string_set(s, "bye")); O(seq(json_string_value(s), "bye")); O(json_string_length(s));
	O(json_string_set(s, NULL));                            /* -1 */
	O(json_string(NULL) == NULL);
	O(json_string_length(a));
	O(json_is_true(json_boolean(3))); O(json_boolean(0) == json_false()); O(json_true() == json_true());
	O(json_is_null(json_null()));
	O(json_integer_value(s)); O(json_string_value(a) == NULL);
	{
		json_t *r = json_real(2.5), *big = json_integer(9007199254740993LL);
		O((long)(json_real_value(r) * 4)); O((long)(json_number_value(r) * 2));
		O((long)json_number_value(big) == 9007199254740992LL);  /* rounded by the double */
		O((long)json_integer_value(big) == 9007199254740993LL);
		O(json_real_set(r, 1.0)); O((long)json_real_value(r)); O(json_real_set(big, 1.0));
		O((long)json_number_value(s)); O((long)json_real_value(big));
		json_decref(r);
		json_decref(big);
	}
	json_decref(a);
	json_decref(s);
}

static void s_iteration(void)
{
	json_t *o = json_object(), *v;
	const char *k;
	long n = 0, sum = 0, klen = 0;
	json_object_set_new(o, "a", json_integer(1));
	json_object_set_new(o, "bb", json_integer(2));
	json_object_set_new(o, "ccc", json_integer(4));
	json_object_del(o, "bb");
	json_object_set_new(o, "d", json_integer(8));
	json_object_foreach(o, k, v) {
		n++;
		sum += (long)json_integer_value(v);
		klen += (long)strlen(k);
	}
	O(n); O(sum); O(klen);
	O(json_object_iter(json_true()) == NULL);
	O(json_object_iter_at(o, "zz") == NULL);
	O(json_integer_value(json_object_iter_value(json_object_iter_at(o, "ccc"))));
	json_decref(o);
}

static void run_all(void)
{
	s_object_basics();
	s_updates();
	s_copies();
	s_arrays_strings();
	s_iteration();
}

#ifdef VF_MODEL_SIDE
#include "json_conf_expected.h"
json_t *vf_parse(unsigned call_no, const char *buf, size_t len, size_t flags) { return NULL; }
void vf_dump_hook(unsigned call_no, const json_t *tree, size_t flags, const char *text) { }
int main(void)
{
	unsigned i;
	run_all();
	__CPROVER_assert(nobs == JSON_CONF_N, "conformance: same number of observations as the real jansson");
	for (i = 0; i < JSON_CONF_N; i++)
		__CPROVER_assert(obs[i] == json_conf_expected[i], "conformance: model observation equals the real jansson's");
	return 0;
}
#else
int main(void)
{
	unsigned i;
	run_all();
	printf("#define JSON_CONF_N %u\nstatic const long json_conf_expected[JSON_CONF_N] = {", nobs);
	for (i = 0; i < nobs; i++)
		printf("%s%ld", i ? ", " : " ", obs[i]);
	printf(" };\n");
	return nobs >= NOBS;
}
#endif
