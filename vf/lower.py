#!/usr/bin/env python3
"""Lower GCC's __attribute__((cleanup(f))) on preprocessed C text.

CBMC ignores the cleanup attribute (a cleanup variable is never released), and libjwt's
per-call objects (jwt_auto_t, char_auto, json_auto_t) rely on it.  This pass rewrites, in the
*preprocessed* unit, every function that declares cleanup variables:

    T f(...) { ... D __attribute__((cleanup(c))) *v = init; ... return E; ... }
=>
    T f(...) { T __vf_ret; ... D *v = init; ... { __vf_ret = (E); goto __vf_cleanup; } ...
               __vf_cleanup: c(&v); return __vf_ret; }

(GCC semantics: the return value is evaluated first, cleanups run in reverse declaration order.)

It FAILS CLOSED (raises LowerError) when
  * a cleanup variable is declared anywhere but at function-body level (brace depth 1),
  * a cleanup variable has no initialiser,
  * a `return` or a `goto` occurs before the last cleanup declaration of the function,
  * the function returns void or its header cannot be parsed,
  * control can reach the end of the function body without a return (last statement check).
Line markers (# n "file") are preserved so CBMC source locations still point into /repo.
"""
import re
import sys


class LowerError(Exception):
    pass


TOK = re.compile(r'''
    (?P<ws>[ \t\r\f\v]+)
  | (?P<nl>\n)
  | (?P<str>"(?:\\.|[^"\\\n])*")
  | (?P<chr>'(?:\\.|[^'\\\n])*')
  | (?P<id>[A-Za-z_][A-Za-z_0-9]*)
  | (?P<num>\.?[0-9](?:[0-9a-zA-Z_.]|[eEpP][+-])*)
  | (?P<op>->|\+\+|--|<<=|>>=|<<|>>|<=|>=|==|!=|&&|\|\||[-+*/%&|^]=|\.\.\.|[{}()\[\];,.:?~!<>=+\-*/%&|^\#])
''', re.X)


def tokenize(text):
    """Return list of (kind, text, start, end); line-marker lines become kind 'marker'."""
    toks = []
    i = 0
    n = len(text)
    bol = True
    while i < n:
        if bol and text[i] == '#':
            j = text.find('\n', i)
            if j < 0:
                j = n
            toks.append(('marker', text[i:j], i, j))
            i = j
            bol = False
            continue
        m = TOK.match(text, i)
        if not m:
            raise LowerError('cannot tokenize at offset %d: %r' % (i, text[i:i + 20]))
        kind = m.lastgroup
        if kind == 'nl':
            bol = True
        elif kind != 'ws':
            bol = False
            toks.append((kind, m.group(), m.start(), m.end()))
        i = m.end()
    return toks


def match_fwd(toks, i, open_, close):
    depth = 0
    for k in range(i, len(toks)):
        t = toks[k][1]
        if toks[k][0] in ('str', 'chr', 'marker'):
            continue
        if t == open_:
            depth += 1
        elif t == close:
            depth -= 1
            if depth == 0:
                return k
    raise LowerError('unbalanced %s' % open_)


def match_back(toks, i, open_, close):
    depth = 0
    for k in range(i, -1, -1):
        t = toks[k][1]
        if toks[k][0] in ('str', 'chr', 'marker'):
            continue
        if t == close:
            depth += 1
        elif t == open_:
            depth -= 1
            if depth == 0:
                return k
    raise LowerError('unbalanced %s' % close)


def strip_attrs(tokl):
    """Remove __attribute__((...)) groups and storage-class words from a token list."""
    out = []
    k = 0
    while k < len(tokl):
        t = tokl[k][1]
        if t in ('__attribute__', '__attribute'):
            e = match_fwd(tokl, k + 1, '(', ')')
            k = e + 1
            continue
        if t in ('static', 'inline', '__inline', '__inline__', 'extern', '_Noreturn', '__extension__'):
            k += 1
            continue
        if tokl[k][0] != 'marker':
            out.append(t)
        k += 1
    return out


def lower(text, report=None, probes=()):
    """probes: names of functions at whose entry a reachability assertion is inserted
    (used by the C18 footprint check for functions that own function-local statics)"""
    toks = tokenize(text)
    code = [t for t in toks]  # includes markers; indices into toks
    edits = []  # (start, end, replacement)
    lowered = []

    # locate top-level function bodies
    depth = 0
    k = 0
    n = len(toks)
    paren = 0
    while k < n:
        kind, t, s, e = toks[k]
        if kind in ('str', 'chr', 'marker'):
            k += 1
            continue
        if t == '(':
            paren += 1
        elif t == ')':
            paren -= 1
        elif t == '{' and depth == 0 and paren == 0:
            # previous significant token
            p = k - 1
            while p >= 0 and toks[p][0] == 'marker':
                p -= 1
            close = match_fwd(toks, k, '{', '}')
            if p >= 0 and toks[p][1] == ')':
                if probes:
                    lp = match_back(toks, p, '(', ')')
                    nm = lp - 1
                    while nm >= 0 and toks[nm][0] == 'marker':
                        nm -= 1
                    if nm >= 0 and toks[nm][0] == 'id' and toks[nm][1] in probes:
                        edits.append((toks[k][3], toks[k][3],
                                      ' __CPROVER_assert(0, "C18: function %s, which owns function-local static data, is not reached from the sign/verify path"); ' % toks[nm][1]))
                _lower_function(toks, p, k, close, edits, lowered)
            k = close + 1
            continue
        k += 1

    # apply edits back to front
    out = text
    for s, e, r in sorted(edits, key=lambda x: -x[0]):
        out = out[:s] + r + out[e:]
    if report is not None:
        report.extend(lowered)
    return out


def _lower_function(toks, rparen, lbrace, rbrace, edits, lowered):
    # find cleanup attributes inside the body
    cl = []
    k = lbrace + 1
    while k < rbrace:
        if toks[k][0] == 'id' and toks[k][1] in ('__attribute__', '__attribute'):
            e = match_fwd(toks, k + 1, '(', ')')
            inner = [x[1] for x in toks[k + 1:e + 1] if x[0] != 'marker']
            # expect ( ( cleanup ( NAME ) ) )
            if 'cleanup' in inner or '__cleanup__' in inner:
                if len(inner) != 8 or inner[0:2] != ['(', '('] or inner[2] not in ('cleanup', '__cleanup__') \
                        or inner[3] != '(' or inner[5:] != [')', ')', ')']:
                    raise LowerError('unsupported cleanup attribute form: %s' % ' '.join(inner))
                cl.append((k, e, inner[4]))
            k = e + 1
            continue
        k += 1
    if not cl:
        return

    # function header
    lparen = match_back(toks, rparen, '(', ')')
    nm = lparen - 1
    while nm >= 0 and toks[nm][0] == 'marker':
        nm -= 1
    if toks[nm][0] != 'id':
        raise LowerError('cannot find function name before parameter list')
    fname = toks[nm][1]
    # header start: after previous top-level ; or }
    hs = nm - 1
    while hs >= 0:
        if toks[hs][0] not in ('str', 'chr', 'marker') and toks[hs][1] in (';', '}'):
            break
        hs -= 1
    rtoks = strip_attrs(toks[hs + 1:nm])
    if not rtoks:
        raise LowerError('%s: empty return type' % fname)
    rtype = ' '.join(rtoks)
    if rtype.strip() == 'void':
        raise LowerError('%s: void function with cleanup variables not supported' % fname)

    # walk body: depth bookkeeping, declarations, returns
    depth = 0
    decls = []      # (name, cleanup_fn)
    first_ret = None
    last_decl_tok = -1
    rets = []
    k = lbrace
    attr_at = {a[0]: a for a in cl}
    while k <= rbrace:
        kind, t, s, e = toks[k]
        if kind in ('str', 'chr', 'marker'):
            k += 1
            continue
        if t == '{':
            depth += 1
        elif t == '}':
            depth -= 1
        elif k in attr_at:
            a_s, a_e, cfn = attr_at[k]
            if depth != 1:
                raise LowerError('%s: cleanup variable declared at nested depth %d' % (fname, depth))
            # statement bounds
            ss = k - 1
            while toks[ss][0] in ('marker',) or toks[ss][1] not in (';', '{', '}'):
                ss -= 1
            se = k
            pd = 0
            while True:
                tt = toks[se][1]
                if toks[se][0] not in ('str', 'chr', 'marker'):
                    if tt in ('(', '{', '['):
                        pd += 1
                    elif tt in (')', '}', ']'):
                        pd -= 1
                    elif tt == ';' and pd == 0:
                        break
                se += 1
            # declarators: after attribute end up to ';', split on top-level commas
            names = []
            cur = []
            pd = 0
            for q in range(a_e + 1, se + 1):
                if toks[q][0] == 'marker':
                    continue
                tt = toks[q][1]
                if toks[q][0] not in ('str', 'chr'):
                    if tt in ('(', '{', '['):
                        pd += 1
                    elif tt in (')', '}', ']'):
                        pd -= 1
                if (tt == ',' or tt == ';') and pd == 0:
                    names.append(cur)
                    cur = []
                else:
                    cur.append(toks[q])
            for d in names:
                txt = [x[1] for x in d]
                if '=' not in txt:
                    raise LowerError('%s: cleanup variable without initialiser: %s' % (fname, ' '.join(txt)))
                eq = txt.index('=')
                ids = [x for x in d[:eq] if x[0] == 'id']
                if len(ids) != 1:
                    raise LowerError('%s: cannot parse cleanup declarator: %s' % (fname, ' '.join(txt)))
                decls.append((ids[0][1], cfn))
            if rets:
                raise LowerError('%s: return precedes cleanup declaration' % fname)
            last_decl_tok = se
            # remove the attribute text
            edits.append((toks[a_s][2], toks[a_e][3], ''))
            k = a_e + 1
            continue
        elif kind == 'id' and t == 'return':
            # find end of statement
            se = k + 1
            pd = 0
            while True:
                tt = toks[se][1]
                if toks[se][0] not in ('str', 'chr', 'marker'):
                    if tt in ('(', '{', '['):
                        pd += 1
                    elif tt in (')', '}', ']'):
                        pd -= 1
                    elif tt == ';' and pd == 0:
                        break
                se += 1
            rets.append((k, se))
            k = se + 1
            continue
        elif kind == 'id' and t == 'goto':
            if last_decl_tok < 0 or k < last_decl_tok:
                raise LowerError('%s: goto precedes cleanup declaration' % fname)
        k += 1

    if not rets:
        raise LowerError('%s: no return statement' % fname)
    # last statement of the body must be a return (so control cannot fall off the end)
    last = rbrace - 1
    while toks[last][0] == 'marker':
        last -= 1
    if not (toks[last][1] == ';' and rets[-1][1] == last):
        raise LowerError('%s: body does not end with a return statement' % fname)

    for (rs, re_) in rets:
        expr_s = toks[rs][3]
        expr_e = toks[re_][2]
        edits.append((toks[rs][2], toks[rs][3], '{ __vf_ret = ('))
        edits.append((toks[re_][2], toks[re_][3], '); goto __vf_cleanup; }'))
    edits.append((toks[lbrace][3], toks[lbrace][3], ' %s __vf_ret; ' % rtype))
    calls = ' '.join('%s(&%s);' % (cfn, nm_) for nm_, cfn in reversed(decls))
    edits.append((toks[rbrace][2], toks[rbrace][2], ' __vf_cleanup: %s return __vf_ret; ' % calls))
    lowered.append({'function': fname, 'vars': [d[0] for d in decls], 'returns': len(rets)})


if __name__ == '__main__':
    rep = []
    out = lower(open(sys.argv[1]).read(), rep)
    if len(sys.argv) > 2:
        open(sys.argv[2], 'w').write(out)
    for r in rep:
        print(r)
