"""Counterexample replay.

Every violation gets a replay file with the solver's counterexample (harness-level inputs).  For
the harness families below the counterexample is additionally turned into an ordinary run of the
REAL code (real sources from /repo's working tree, real jansson/OpenSSL/GnuTLS, ASan+UBSan) and the
outcome is attached as `native_replay`:
    codec.c        -> replay/codec_replay.c   (jwt_base64uri_encode/decode vs. an independent reference)
    tool_verify.c  -> the real jwt-verify tool built from the tree (exit status / option handling)
For the other families the replay file holds the counterexample only (DESIGN.md section 6)."""
import json
import os
import re
import shutil
import subprocess
import tempfile

from .build import VERIF, REPO, LIB_UNITS


def _val(inp):
    """integer value of a CBMC trace value"""
    b = inp.get('binary')
    if b and re.fullmatch(r'[01]+', b):
        v = int(b, 2)
        return v
    d = inp.get('value')
    if isinstance(d, str):
        m = re.fullmatch(r"'(.)'", d)
        if m:
            return ord(m.group(1))
        try:
            return int(d.rstrip('ul'), 0)
        except ValueError:
            return None
    return d if isinstance(d, int) else None


def _array(rec, name, n):
    out = [0] * n
    for i in rec.get('inputs', []):
        m = re.fullmatch(re.escape(name) + r'\[(\d+)l?\]', i['lhs'] or '')
        if m and int(m.group(1)) < n:
            v = _val(i)
            if v is not None:
                out[int(m.group(1))] = v & 0xff
    return out


def _scalar(rec, name, default=None):
    v = default
    for i in rec.get('inputs', []):
        if i['lhs'] == name:
            x = _val(i)
            if x is not None:
                v = x
    return v


def _lib_sources():
    return [os.path.join(REPO, u) for u in LIB_UNITS]


def _cc_flags(bld):
    fl = [f.replace('@GEN@', bld.gen) for f in bld.flags.get('libjwt/jwt.c', [])]
    return fl + ['-g', '-O1', '-fsanitize=address,undefined', '-fno-omit-frame-pointer', '-w']


def replay_codec(pid, q, rec, bld):
    defs = dict((d.split('=') + ['1'])[:2] for d in q.defines)
    tmp = tempfile.mkdtemp(prefix='vf-replay-')
    try:
        exe = os.path.join(tmp, 'codec_replay')
        cmd = ['gcc'] + _cc_flags(bld) + [os.path.join(VERIF, 'replay', 'codec_replay.c')] + _lib_sources() + \
              ['-o', exe, '-ljansson', '-lssl', '-lcrypto', '-lgnutls']
        r = subprocess.run(cmd, stdout=subprocess.PIPE, stderr=subprocess.STDOUT, text=True)
        if r.returncode != 0:
            return {'status': 'error', 'detail': 'native build failed: ' + r.stdout[-600:]}
        if 'SIDE_DECODE' in defs:
            m = _scalar(rec, 'm', 0) or 0
            txt = _array(rec, 'txt', int(defs.get('M', 16)))[:m]
            arg = ['decode', ''.join('%02x' % b for b in txt)]
        else:
            n = _scalar(rec, 'n', 1) or 1
            data = _array(rec, 'in', int(defs.get('N', 12)))[:n]
            arg = ['encode', ''.join('%02x' % b for b in data)]
        rr = subprocess.run([exe] + arg, stdout=subprocess.PIPE, stderr=subprocess.STDOUT, text=True, timeout=60)
        confirmed = rr.returncode != 0
        return {'status': 'confirmed' if confirmed else 'not-reproduced', 'command': 'codec_replay ' + ' '.join(arg),
                'exit': rr.returncode, 'output': rr.stdout[-1500:]}
    finally:
        shutil.rmtree(tmp, ignore_errors=True)


def replay_tool(pid, q, rec, bld):
    defs = dict((d.split('=') + ['1'])[:2] for d in q.defines)
    tmp = tempfile.mkdtemp(prefix='vf-replay-')
    try:
        exe = os.path.join(tmp, 'jwt-verify')
        fl = [f for f in _cc_flags(bld) if not f.startswith('-fsanitize')]
        cmd = ['gcc'] + fl + [os.path.join(REPO, 'tools/jwt-verify.c')] + _lib_sources() + \
              ['-o', exe, '-ljansson', '-lssl', '-lcrypto', '-lgnutls']
        r = subprocess.run(cmd, stdout=subprocess.PIPE, stderr=subprocess.STDOUT, text=True)
        if r.returncode != 0:
            return {'status': 'error', 'detail': 'native build failed: ' + r.stdout[-600:]}
        good = 'eyJhbGciOiJub25lIn0.e30.'       # {"alg":"none"} . {} . (empty): verifies on a keyless checker
        bad = 'a.b.c'
        if 'LINES' in defs:
            # line handling: the counterexample says whether the last line lacks its newline; the
            # real tool is fed that many GOOD tokens in the same framing and must exit 0
            n = int(defs.get('NTOK', 2))
            unterminated = bool(_scalar(rec, 'last_unterminated', 0)) or any(
                i['lhs'] == 'has_nl' and _val(i) == 0 for i in rec.get('inputs', []))
            text = '\n'.join([good] * n) + ('' if unterminated else '\n')
            rr = subprocess.run([exe, '-q', '-'], input=text, stdout=subprocess.PIPE, stderr=subprocess.STDOUT, text=True)
            return {'status': 'confirmed' if rr.returncode != 0 else 'not-reproduced',
                    'command': 'printf %r | jwt-verify -q -' % text, 'exit_status': rr.returncode,
                    'expected': 'exit 0: every line is a token that verifies (alg none, keyless checker)'}
        if 'SIDE_EXIT' in defs:
            n = int(defs.get('NTOK', 2))
            f = _scalar(rec, 'failures', n)
            f = n if f is None else min(f, n)
            toks = [bad] * f + [good] * (n - f)
            argv = [exe] + (['-q'] if 'QUIET' in defs else [])
            if 'STDIN' in defs:
                rr = subprocess.run(argv + ['-'], input='\n'.join(toks) + '\n', stdout=subprocess.PIPE, stderr=subprocess.STDOUT, text=True)
            else:
                rr = subprocess.run(argv + toks, stdout=subprocess.PIPE, stderr=subprocess.STDOUT, text=True)
            confirmed = (rr.returncode == 0) != (f == 0)
            return {'status': 'confirmed' if confirmed else 'not-reproduced',
                    'command': '%s %d tokens (%d failing)' % (' '.join(os.path.basename(a) for a in argv), n, f),
                    'exit_status': rr.returncode, 'expected': 'exit 0 iff no token failed'}
        # option spelling
        hdr = os.path.join(bld.gen, 'c20_verify_opts.h')
        opts = re.findall(r"\{ '(.)', \"([^\"]+)\", (\d) \}", open(hdr).read())
        sc, ln, ha = opts[int(defs.get('WHICH', 0))]
        sp = int(defs.get('SPELLING', 0))
        keyfile = os.path.join(REPO, 'tests/keys/ec_key_prime256v1_pub_noalg.json')
        if not os.path.exists(keyfile):
            keyfile = os.path.join(REPO, 'tests/keys/ec_key_prime256v1_pub.json')
        arg = {'a': 'ES256', 'k': keyfile}.get(sc, 'cat')
        words = []
        if sc != 'k':
            words += ['-k', keyfile]
        if sp == 0:
            words.append('-' + sc + (arg if ha == '1' else ''))
        elif sp == 1:
            words += ['-' + sc, arg]
        elif sp == 2:
            words.append('--' + ln + (('=' + arg) if ha == '1' else ''))
        else:
            words += ['--' + ln, arg]
        rr = subprocess.run([exe] + words + [bad], stdout=subprocess.PIPE, stderr=subprocess.STDOUT, text=True)
        refused = bool(re.search(r'Unknown (option|algorithm)|ERROR:', rr.stdout))
        return {'status': 'confirmed' if refused else 'not-reproduced', 'command': 'jwt-verify ' + ' '.join(words) + ' ' + bad,
                'exit_status': rr.returncode, 'output': rr.stdout[-400:]}
    finally:
        shutil.rmtree(tmp, ignore_errors=True)


DRIVERS = {'codec.c': replay_codec, 'tool_verify.c': replay_tool}


def native_replay(pid, q, rec, bld):
    drv = DRIVERS.get(q.harness)
    if not drv:
        return {'status': 'none', 'detail': 'no native driver for this harness family; the replay file holds the '
                                            'solver counterexample (harness-level inputs) for the real units'}
    return drv(pid, q, rec, bld)


def replay_file(path):
    rec = json.load(open(path))
    print(json.dumps({k: rec[k] for k in ('property', 'query', 'obligation', 'bounds') if k in rec}, indent=1))
    print('inputs (harness-level assignments of the counterexample):')
    for i in rec.get('inputs', [])[:200]:
        print('  %s = %s   (%s:%s)' % (i['lhs'], i['value'], i.get('function'), i.get('line')))
    print('native replay:', json.dumps(rec.get('native_replay'), indent=1))
    print('to re-run the deciding query:  ./check %s --only %s' % (rec['property'], rec['query']))
    return 0
