"""Counterexample replay against the REAL library (real jansson / OpenSSL / GnuTLS, ASan+UBSan).

Best effort per harness family: the solver's verdict over the real translation units is what
decides; a native reproduction is attached to the replay file when a driver exists."""
import json
import os
import subprocess
import sys

from .build import VERIF, REPO


def native_replay(pid, q, rec, bld):
    drv = getattr(q, 'replay_driver', None)
    if not drv:
        return {'status': 'none', 'detail': 'no native driver for this harness family; the replay file holds the '
                                            'solver counterexample (inputs of the harness) for the real units'}
    return drv(pid, q, rec, bld)


def replay_file(path):
    rec = json.load(open(path))
    print(json.dumps({k: rec[k] for k in ('property', 'query', 'obligation', 'bounds') if k in rec}, indent=1))
    print('inputs (harness-level assignments of the counterexample):')
    for i in rec.get('inputs', [])[:200]:
        print('  %s = %s   (%s:%s)' % (i['lhs'], i['value'], i.get('function'), i.get('line')))
    print('native replay:', json.dumps(rec.get('native_replay'), indent=1))
    print('to re-run the deciding query:  ./check %s --only %s' % (rec['property'], rec['query']))
    return 0
