#!/usr/bin/env python3
"""Driver:  ./check <Cxx> [--tier quick|thorough] [--replay FILE] [--keep] [--only QUERY]"""
import argparse
import json
import os
import re
import shutil
import sys
import time

from . import build as B
from . import cbmc as C
from . import props as P
from . import kf as KF
from . import replay as R

VERIF = B.VERIF


def trace_inputs(trace):
    """reduce a CBMC JSON trace to the assignments of harness-level symbolic inputs"""
    out = []
    for st in trace or []:
        if st.get('stepType') != 'assignment':
            continue
        loc = st.get('sourceLocation', {})
        f = loc.get('file', '')
        lhs = st.get('lhs', '')
        if st.get('hidden'):
            continue
        if '/verif/harness/' in f or lhs.startswith('tok') or lhs.startswith('vf_now'):
            val = st.get('value', {})
            v = val.get('data', val.get('name'))
            if v is None and 'elements' in val:
                v = '<array>'
            out.append({'lhs': lhs, 'value': v, 'binary': val.get('binary'), 'line': loc.get('line'), 'function': loc.get('function')})
    return out


def main(argv=None):
    ap = argparse.ArgumentParser()
    ap.add_argument('prop')
    ap.add_argument('--tier', default=os.environ.get('VERIF_TIER', 'quick'), choices=['quick', 'thorough'])
    ap.add_argument('--replay')
    ap.add_argument('--keep', action='store_true')
    ap.add_argument('--only', help='regex: run only matching queries')
    ap.add_argument('--jobs', type=int, default=None)
    ap.add_argument('--no-evidence', action='store_true')
    a = ap.parse_args(argv)
    seed = int(os.environ.get('VERIF_SEED', '0') or 0)
    pid = a.prop.upper()

    if a.replay:
        return R.replay_file(a.replay)

    if pid not in P.PROPS:
        print('unknown property', pid)
        return 2
    spec = P.PROPS[pid]
    t0 = time.time()
    bld = B.Build(keep=a.keep)
    rc = 2
    try:
        bld.prepare()
        queries = [q for q in spec.queries(a.tier, bld) if a.tier in q.tiers]
        if a.only:
            queries = [q for q in queries if re.search(a.only, q.name)]
        findings = KF.load(pid)
        queries = KF.apply(queries, findings)
        units = sorted({u for q in queries for u in q.units})
        bld.build_units(units)
        pre = spec.prechecks(bld, a.tier) if hasattr(spec, 'prechecks') else []
        results = C.run_all(bld, queries, jobs=a.jobs)
        rc = report(pid, spec, a.tier, seed, bld, queries, results, findings, pre, t0, a)
    except B.BuildError as e:
        print('BUILD-ERROR', e)
        write_evidence(pid, spec, a.tier, seed, [], [], t0, note='build error: %s' % e, violations=0, bld=bld)
        rc = 2
    finally:
        if a.keep:
            print('work dir kept:', bld.work)
        bld.cleanup()
    return rc


def report(pid, spec, tier, seed, bld, queries, results, findings, pre, t0, a):
    nviol = 0
    bad = []
    known_lines = []
    rdir = os.path.join(VERIF, 'evidence', 'replays')
    qby = {q.name: q for q in queries}
    for r in results:
        q = qby[r['name']]
        line = '%-34s %-12s %6.1fs  ok=%s reach=%s' % (r['name'], r['status'], r.get('wall_s', 0), r.get('n_ok'), r.get('n_reach'))
        print(line)
        for pp in r.get('vacuous', []) or []:
            print('    VACUITY-WARNING: witness not reached: %s' % pp['desc'])
        if r['status'] in ('build-error', 'error', 'oom'):
            print('   ', r.get('error', '')[:2000])
        if getattr(q, 'kf_probe', None):
            # probe of a listed finding: its designated obligations are expected to FAIL
            f = q.kf_probe
            if r['status'] == 'pass' and r.get('known'):
                known_lines.append('KNOWN-FINDING: property=%s %s' % (pid, f['text']))
            elif r['status'] == 'pass':
                print('    note: listed finding no longer reproduces (%s)' % f['key'])
            continue
        if r['status'] == 'violation':
            # one replay file per query: trace of the first failed obligation, the others listed
            nviol += 1
            vprop = r['violations'][0]
            os.makedirs(rdir, exist_ok=True)
            path = os.path.join(rdir, '%s-%s.json' % (pid, re.sub(r'[^A-Za-z0-9]', '_', r['name'])))
            tq = q
            tr = C.run_query(bld, tq, trace=True, only_property=vprop['id'])
            trace = None
            for pp in tr.get('props', []):
                if pp['id'] == vprop['id'] and 'trace' in pp:
                    trace = pp['trace']
            rec = {'property': pid, 'query': r['name'], 'obligation': vprop['desc'], 'cbmc_property': vprop['id'],
                   'all_failed_obligations': [x['desc'] for x in r['violations']],
                   'location': vprop.get('loc'), 'bounds': q.bounds, 'defines': q.defines, 'harness': q.harness,
                   'inputs': trace_inputs(trace), 'cbmc_cmd': r.get('cmd')}
            try:
                rec['native_replay'] = R.native_replay(pid, q, rec, bld)
            except Exception as e:  # replay is best effort; the solver verdict stands
                rec['native_replay'] = {'status': 'error', 'detail': str(e)}
            json.dump(rec, open(path, 'w'), indent=1)
            seen, lines = set(), []
            for x in r['violations']:
                if x['desc'] not in seen:
                    seen.add(x['desc'])
                    lines.append(x['desc'])
            # property-level obligations first; everything after the first undefined behaviour is noise
            lines.sort(key=lambda d: 0 if re.match(r'C\d\d', d) else 1)
            for d in lines[:12]:
                print('    failed obligation: %s' % d)
            if len(lines) > 12:
                print('    ... and %d more failed obligations (all listed in the replay file)' % (len(lines) - 12))
            print('VIOLATION property=%s replay=%s' % (pid, path))
        elif r['status'] != 'pass':
            bad.append(r)
            for k in ('inconclusive',):
                for pp in r.get(k, []) or []:
                    print('    %s: %s %s [%s]' % (k, pp['id'], pp['desc'], pp['status']))
    for l in known_lines:
        print(l)
    for pr in pre:
        print('precheck %-40s %s' % (pr['name'], pr['status']))
        if pr['status'] != 'pass':
            bad.append(pr)
    if not a.no_evidence and not a.only:
        write_evidence(pid, spec, tier, seed, queries, results, t0, violations=nviol, bld=bld, pre=pre,
                       known=known_lines)
    if nviol:
        return 1
    if bad:
        print('INCONCLUSIVE property=%s (%d queries without a verdict: %s)' %
              (pid, len(bad), ', '.join('%s=%s' % (b['name'], b['status']) for b in bad)))
        return 2
    print('PASS property=%s tier=%s queries=%d wall=%.0fs' % (pid, tier, len(results), time.time() - t0))
    return 0


def write_evidence(pid, spec, tier, seed, queries, results, t0, violations=0, note=None, bld=None, pre=None, known=None):
    os.makedirs(os.path.join(VERIF, 'evidence'), exist_ok=True)
    obligations = []
    reach = []
    solver_s = 0.0
    peak = 0
    cmds = []
    nontrivial = set()
    qsum = []
    for r in results:
        solver_s += r.get('solver_s', 0.0)
        peak = max(peak, r.get('peak_rss_kb', 0))
        if r.get('cmd'):
            cmds.append(re.sub(r'/tmp/vf-work-[^/]+/', '$WORK/', r['cmd']))
        for p in r.get('props', []):
            d = p['desc'] or ''
            key = (r['name'], p['id'])
            if d.startswith('reach:') or d.startswith('reach-opt:'):
                reach.append({'query': r['name'], 'goal': d.split(':', 1)[1].strip(), 'reached': p['status'] == 'FAILURE'})
            else:
                obligations.append({'query': r['name'], 'id': p['id'], 'desc': d, 'status': p['status']})
                loc = (p.get('loc') or {}).get('file', '')
                # non-trivial: an obligation stated by the harness about libjwt's behaviour, or a
                # CBMC-generated check located in a libjwt source file (not in a model)
                if '/verif/models/' not in loc and not d.startswith('bound:'):
                    nontrivial.add((r['name'], d if d else p['id']))
        qsum.append({'query': r['name'], 'status': r['status'], 'wall_s': round(r.get('wall_s', 0), 1),
                     'solver_s': round(r.get('solver_s', 0), 1), 'peak_rss_kb': r.get('peak_rss_kb'),
                     'bounds': r.get('bounds'), 'obligations': len([p for p in r.get('props', []) if not (p['desc'] or '').startswith('reach')]),
                     'reach_goals': r.get('n_reach')})
    discharged = len([o for o in obligations if o['status'] == 'SUCCESS'])
    samples = []
    for o in obligations:
        if '/verif' not in o['desc'] and len(samples) < 12 and not o['desc'].startswith('bound:') and 'unwinding' not in o['desc']:
            samples.append({'query': o['query'], 'obligation': o['desc'], 'status': o['status']})
    for g in reach[:8]:
        samples.append({'query': g['query'], 'reachability_witness': g['goal'], 'reached': g['reached']})
    if not samples:
        samples = [{'note': note or 'no query produced a result'}]
    funcs = []
    if bld is not None:
        funcs = spec.functions if hasattr(spec, 'functions') else []
    ev = {
        'property_id': pid,
        'tier': tier,
        'seed': seed,
        'level': spec.level,
        'coverage': {
            'evaluations': max(1, len(obligations) + len(reach)),
            'distinct_nontrivial': max(len(nontrivial), 0),
            'rule': 'one evaluation = one CBMC property decided by the SAT solver over ALL inputs within the stated '
                    'bounds (not a concrete run); distinct_nontrivial counts distinct (query, obligation) pairs that '
                    'are assertions of the property under check or CBMC checks located in libjwt sources, excluding '
                    'model-internal checks, bound assertions and reachability witnesses',
            'samples': samples,
            'obligations': len(obligations),
            'discharged': discharged,
            'reach_goals': len(reach),
            'reach_goals_reached': len([g for g in reach if g['reached']]),
            'checker_cmd': ' ; '.join(cmds[:6]),
            'trusted_base': spec.trusted_base,
            'functions_encoded': funcs,
            'units_encoded': sorted({u for q in queries for u in q.units}),
            'queries': qsum,
            'solver': 'cbmc 6.11.0 / CaDiCaL (SAT), per-query back end listed in checker_cmd',
            'solver_time_s': round(solver_s, 1),
            'peak_rss_kb': peak,
            'exhaustive': False,
            'explanation': spec.explanation or spec.level_text,
            'outside_bounds': spec.outside or spec.level_note,
            'lowering': {u: r for u, r in (bld.lower_report.items() if bld else []) if r},
            'prechecks': pre or [],
            'known_findings_reported': known or [],
        },
        'assumptions': spec.assumptions,
        'wall_s': round(time.time() - t0, 1),
        'violations': violations,
    }
    if note:
        ev['coverage']['note'] = note
    if ev['coverage']['distinct_nontrivial'] < 2:
        ev['coverage']['distinct_nontrivial'] = len(nontrivial)
    json.dump(ev, open(os.path.join(VERIF, 'evidence', pid + '.json'), 'w'), indent=1)


if __name__ == '__main__':
    sys.exit(main())
