"""Regenerates the results tables of DESIGN.md section 11 from seeded/*/meta.json
(between the markers <!-- SEEDED-TABLE-BEGIN --> and <!-- SEEDED-TABLE-END -->)."""
import glob
import json
import os
import re

from .build import VERIF


def table():
    rows = {}
    for d in sorted(glob.glob(os.path.join(VERIF, 'seeded', 'S*-C*'))):
        m = json.load(open(os.path.join(d, 'meta.json')))
        rnd = m.get('round', 1)
        pid = m['property']
        cr = m.get('checks_run', {})
        own = cr.get(pid, {})
        others = ['%s: %s' % (k, v.get('verdict')) for k, v in sorted(cr.items()) if k != pid]
        qs = own.get('queries_with_counterexample') or []
        rows.setdefault(rnd, []).append('| %s | %s | %s | %s | %s |' % (
            m['id'], m['change'].replace('|', '/'), m['needs_to_manifest'].replace('|', '/'),
            own.get('verdict', 'not run') + ((' (also run: ' + '; '.join(others) + ')') if others else ''),
            ', '.join(qs[:4]) + (' …' if len(qs) > 4 else '')))
    out = []
    for rnd in sorted(rows):
        out.append('**Round %d**\n' % rnd)
        out.append('| id | change | needs | verdict of the property\'s check | queries with a counterexample |')
        out.append('|---|---|---|---|---|')
        out += rows[rnd]
        out.append('')
    return '\n'.join(out)


def main():
    p = os.path.join(VERIF, 'DESIGN.md')
    s = open(p).read()
    t = table()
    s2 = re.sub(r'<!-- SEEDED-TABLE-BEGIN -->.*?<!-- SEEDED-TABLE-END -->',
                lambda _: '<!-- SEEDED-TABLE-BEGIN -->\n' + t + '\n<!-- SEEDED-TABLE-END -->', s, flags=re.S)
    open(p, 'w').write(s2)
    print(t[:600])


if __name__ == '__main__':
    main()
