"""Per-property query lists (DESIGN.md §5) and the metadata that goes into evidence."""
from .cbmc import Query

CORE_UNITS = ['libjwt/jwt-checker.c', 'libjwt/jwt-verify.c', 'libjwt/jwt.c', 'libjwt/jwt-setget.c',
              'libjwt/jwt-memory.c', 'libjwt/base64.c']

TB_CORE = [
    'M1 allocator model (models/alloc.c) installed through the real jwt_set_alloc',
    'M2 jansson model (models/jansson_model.c): containers per the jansson 2.14 manual; PARSERS HAVOCKED '
    '(json_loads returns NULL or an arbitrary tree within the shape bound), json_dumps returns arbitrary text',
    'M3 provider oracle (models/provider_stub.c) replacing jwt_ops: arbitrary verdicts / MAC bytes, with monitors',
    'M6 env (models/env.c): time() = symbolic value; snprintf writes the first literal character of the format',
    'CBMC 6.11 built-in models of strlen/strcmp/strcpy/memcpy/memset/strcat',
    'cleanup lowering pass vf/lower.py (fails closed; validated natively against the repository test suite in the thorough tier)',
    'the reference predicates in harness/ref.h (RFC 4648 §5, RFC 7518 names/families, include/jwt.h setkey table)',
]

ASSUME_CORE = [
    'token: every byte string of length <= L (all dot positions, all byte values), NUL-terminated',
    'key descriptor: alg in [none..INVAL], kty in {EC,RSA,OKP,oct}, bits any size_t, oct items satisfy bits == 8*oct.len '
    '(import invariant, discharged by the C07/C08 import harness)',
    'parsed header/payload: NULL, array, or object over the key alphabet with members of any JSON type '
    '(strings <= VJ_SLEN bytes, integers any 64-bit value); nested containers are empty on this path',
    'oracle MAC/signature length reduced to <= PV_MACLEN bytes on the HMAC path (comparison code is length-generic)',
    'callback: returns any int; may replace config->key (by another arbitrary key or NULL) and/or config->alg',
    'jwt_checker_new succeeds (allocation failure is the subject of C17)',
]


NOT_CLAIMED = {}


class Spec:
    level = 'model_checking'
    design_ref = 'DESIGN.md section 5'
    technique = 'bounded model checking of the real C units (CBMC 6.11, SAT), symbolic inputs, environment models'
    level_text = ''
    level_note = ''
    trusted_base = TB_CORE
    assumptions = ASSUME_CORE
    functions = []
    explanation = ''
    outside = ''

    def queries(self, tier, bld):
        return []

    def prechecks(self, bld, tier='quick'):
        return []


def core_q(name, defines, L=12, budget=300, tiers=('quick', 'thorough'), unwind=None, extra_defs=(), desc=''):
    d = ['L=%d' % L, 'VF_FREE_NOOP', 'VF_CAP=%d' % (L + 8)] + list(defines) + list(extra_defs)
    q = Query(name, 'core_verify.c', CORE_UNITS, defines=d, unwind=unwind or (L + 3), checks='verdict',
                 budget=budget, tiers=tiers, desc=desc, mem_gb=14,
                 bounds={'L': L, 'VJ_MAXM': 4, 'VJ_SLEN': 8, 'PV_MACLEN': 3, 'unwind': unwind or (L + 3)})
    q.mem_expect = 3        # typical 1.2-2.6 GB; the cap leaves room for a modified tree
    return q


BUILDER_UNITS = ['libjwt/jwt-builder.c', 'libjwt/jwt-encode.c', 'libjwt/jwt.c', 'libjwt/jwt-setget.c',
                 'libjwt/jwt-memory.c', 'libjwt/base64.c']
BUILDER_FUNCS = ['jwt_builder_new', 'jwt_builder_setkey', 'jwt_builder_setcb', 'jwt_builder_enable_iat',
                 'jwt_builder_time_offset', 'jwt_builder_header_set', 'jwt_builder_claim_set', 'jwt_builder_generate',
                 '__setkey_check', 'jwt_head_setup', 'jwt_encode', 'jwt_encode_str', 'write_js', 'jwt_sign', '__check_hmac',
                 '__check_key_bits', 'sign_sha_hmac', 'jwt_base64uri_encode', 'base64_encode', 'jwt_alg_str',
                 'jwt_claim_set', 'jwt_header_set', '__setter', 'jwt_set_int', 'jwt_set_str', 'jwt_obj_check', 'jwt_free']


def builder_q(name, defines, budget=600, tiers=('quick', 'thorough')):
    d = ['VF_FREE_NOOP', 'VF_CAP=24', 'VJ_MAXM=5', 'VJ_DUMPLEN=3', 'PV_COPY_INPUT'] + list(defines)
    q = Query(name, 'core_builder.c', BUILDER_UNITS, defines=d, unwind=26, checks='verdict', budget=budget, tiers=tiers, mem_gb=14,
                 bounds={'VJ_MAXM': 5, 'VJ_DUMPLEN': 3, 'PV_MACLEN': 3, 'config history': 'enable_iat?, time_offset(nbf)?, '
                         'time_offset(exp)?, header typ?, header alg?, claim iat?, claim exp?, setkey, setcb', 'clock': '[0,2^61]'})
    q.mem_expect = 3
    return q


GNUTLS_UNITS = ['libjwt/gnutls/sign-verify.c', 'libjwt/jwt-memory.c']
GNUTLS_MODELS = ['alloc', 'jansson_model', 'env', 'gnutls_stubs']


def gnutls_q(name, defines, unwind=140, budget=600, tiers=('quick', 'thorough'), checks='memsafe-noconv'):
    return Query(name, 'prov_gnutls.c', GNUTLS_UNITS, models=GNUTLS_MODELS, defines=['VF_EXACT_END', 'VF_CAP=136'] + list(defines),
                 unwind=unwind, checks=checks, budget=budget, tiers=tiers,
                 bounds={'algorithms': 'all 11 asymmetric (3 HMAC on the sign side)', 'pk algorithm of the key': 'any int',
                         'signature length': '0..134 bytes', 'key bits': 'any size_t satisfying the C09 floor'})


OSSL_UNITS = ['libjwt/openssl/sign-verify.c', 'libjwt/jwt-memory.c']
OSSL_MODELS = ['alloc', 'jansson_model', 'env', 'openssl_stubs']


def ossl_q(name, defines, unwind=140, budget=600, tiers=('quick', 'thorough'), checks='memsafe-noconv'):
    return Query(name, 'prov_ossl.c', OSSL_UNITS, models=OSSL_MODELS, defines=['VF_EXACT_END', 'VF_CAP=144'] + list(defines),
                 unwind=unwind, checks=checks, budget=budget, tiers=tiers,
                 bounds={'algorithms': 'all 11 asymmetric (3 HMAC on the sign side)', 'EVP_PKEY type': 'any int',
                         'signature length': '0..134 bytes', 'key bits': 'any size_t satisfying the C09 floor'})


IMPORT_UNITS = ['libjwt/openssl/jwk-parse.c', 'libjwt/jwt.c', 'libjwt/jwt-memory.c', 'libjwt/base64.c']
IMPORT_MODELS = ['alloc', 'jansson_model', 'env', 'provider_stub_none', 'openssl_stubs', 'openssl_stubs_jwk']
IMPORT_FUNCS = ['openssl_process_rsa', 'openssl_process_ec', 'openssl_process_eddsa', 'set_one_bn', 'set_one_octet',
                'set_one_string', 'set_ec_pub_key', 'ec_crv_to_ossl_name', 'pctx_to_pem', 'jwt_base64uri_decode',
                'base64_decode', 'jwt_strcmp']


def import_q(name, kty, prop, slen=None, budget=900, tiers=('quick', 'thorough')):
    maxm = {'RSA': 9, 'EC': 4, 'OKP': 3}[kty]
    slen = slen or {'RSA': 5, 'EC': 8, 'OKP': 8}[kty]
    return Query(name, 'jwk_import.c', IMPORT_UNITS, models=IMPORT_MODELS,
                 defines=['KTY_' + kty, prop, 'VJ_MAXM=%d' % maxm, 'VJ_SLEN=%d' % slen, 'VF_CAP=%d' % (slen + 8), 'VO_WITH_JWK', 'VJ_CHECK_DEAD', 'VO_IMAX=8'],
                 unwind=max(20, slen + 4), checks='memsafe-noconv', budget=budget, tiers=tiers,
                 bounds={'kty': kty, 'members': 'each absent or of any JSON type', 'strings': '<= %d arbitrary bytes' % slen})


CORE_FUNCS = ['jwt_checker_new', 'jwt_checker_setkey', 'jwt_checker_setcb', 'jwt_checker_verify', '__setkey_check',
              'jwt_new', 'jwt_free', 'jwt_parse', 'jwt_parse_head', 'jwt_parse_payload',
              'jwt_base64uri_decode_to_json', 'jwt_verify_complete', '__verify_config_post', '__verify_claims',
              '__check_str_claim', 'jwt_verify_sig', '_verify_sha_hmac', 'jwt_sign', '__check_hmac',
              '__check_key_bits', 'sign_sha_hmac', 'jwt_base64uri_decode', 'jwt_base64uri_encode',
              'base64_decode', 'base64_encode', 'jwt_strcmp', 'jwt_str_alg', 'jwt_claim_get', '__getter',
              'jwt_malloc', '__jwt_freemem', 'jwt_set_alloc']


def strcmp_qs(tier, prefix='C01'):
    """jwt_strcmp is exact string equality, for all pairs of strings up to N characters (N above 256 / 1024)"""
    out = []
    for n, t, b in ((300, ('quick', 'thorough'), 600), (1100, ('thorough',), 3600)):
        if tier in t:
            out.append(Query('%s.strcmp.N%d' % (prefix, n), 'strcmp.c', ['libjwt/jwt-memory.c'], models=['alloc', 'jansson_model', 'env'],
                             defines=['N=%d' % n], unwind=n + 3, checks='memsafe-noconv', budget=b, tiers=t,
                             bounds={'string length': '<= %d characters each, all byte values' % n}))
    return out


class C01(Spec):
    functions = CORE_FUNCS
    design_ref = 'DESIGN.md section 5 C01, section 4'
    level_text = ('Bounded model checking of the real verify path: for ALL tokens up to L bytes, all key descriptors, '
                  'all configurations and all oracle answers, acceptance with a key implies exactly one consultation of '
                  'the crypto oracle with the configured key, the header algorithm, exactly the authenticated bytes and '
                  'exactly the decoded third segment, answered "valid". The comparator behind the HMAC verdict (jwt_strcmp) is exact string '
                  'equality for all pairs of strings up to 300 (1100) characters; the MAC it is compared with is computed by the provider with exactly '
                  'the key item\'s octets for every key length. Bounded (token length), not a proof.')
    level_note = ('Crypto primitives and JSON parsing are oracles (models M2/M3); bounds L<=12 quick / 16 thorough; '
                  'MAC length reduced to 3 bytes on the HMAC path; see evidence.assumptions')
    explanation = ('Core layer: jwt_checker_verify()==0 with a key implies exactly one oracle consultation, with the '
                   'configured key, the header algorithm, over exactly token[0..second dot), on exactly the reference '
                   'base64url decoding of segment 3 (asymmetric) or with segment 3 equal as a whole string to '
                   'base64url(oracle MAC) (HMAC), and the oracle said valid.  Provider layer: see queries C01.ossl / '
                   'C01.gnutls.')
    outside = ('tokens longer than L bytes; the cryptographic primitives themselves (OpenSSL/GnuTLS are oracles); '
               'JSON grammar (jansson); MbedTLS')

    def queries(self, tier, bld):
        qs = []
        if tier == 'quick':
            qs.append(core_q('C01.core.L12', ['PROP_C01'], L=12))
        else:
            qs.append(core_q('C01.core.L12', ['PROP_C01'], L=12))
            qs.append(core_q('C01.core.L16', ['PROP_C01'], L=16, budget=1800))
        qs.append(gnutls_q('C01.gnutls.verify', ['SIDE_VERIFY']))
        qs.append(ossl_q('C01.ossl.verify.rsa_pss_eddsa', ['SIDE_VERIFY', 'NOT_ES']))
        for a in (('ES256', 'ES512') if tier == 'quick' else ('ES256', 'ES256K', 'ES384', 'ES512')):
            qs.append(ossl_q('C01.ossl.verify.%s' % a, ['SIDE_VERIFY', 'ONLY_ALG=JWT_ALG_%s' % a], budget=900))
        # the HMAC verdict is a recomputation through the provider's sign_sha_hmac: keyed with exactly the item's octets
        # (any length up to INT_MAX), the prescribed hash, over exactly the bytes handed in
        qs.append(ossl_q('C01.ossl.hmac', ['SIDE_SIGN']))
        qs.append(gnutls_q('C01.gnutls.hmac', ['SIDE_SIGN']))
        qs += strcmp_qs(tier)
        return qs


PROPS = {
    'C01': C01(),
}


class C02(Spec):
    functions = CORE_FUNCS
    def queries(self, tier, bld):
        return [core_q('C02.core.L12', ['PROP_C02', 'PROP_C02_SETKEY'], L=12),
                core_q('C02.core.L16', ['PROP_C02', 'PROP_C02_SETKEY'], L=16, budget=1800, tiers=('thorough',)),
                builder_q('C02.builder', ['PROP_C02']),
                ossl_q('C02.ossl.verify.family', ['SIDE_VERIFY', 'NOT_ES']),
                ossl_q('C02.ossl.verify.family.ES256', ['SIDE_VERIFY', 'ONLY_ALG=JWT_ALG_ES256'], budget=900),
                ossl_q('C02.ossl.sign.family', ['SIDE_SIGN'])]


class C03(Spec):
    functions = CORE_FUNCS
    def queries(self, tier, bld):
        return [core_q('C03.core.L12', ['PROP_C03', 'PROP_C02_SETKEY'], L=12),
                core_q('C03.core.L16', ['PROP_C03', 'PROP_C02_SETKEY'], L=16, budget=1800, tiers=('thorough',)),
                builder_q('C03.builder', ['PROP_C03'])]


def errcopy_qs(prefix):
    """hand-back of the per-call error message (copy between message buffers), for ANY message that
    fits the per-call object's buffer: real FUNC(verify)/FUNC(generate) around contract stubs"""
    out = []
    for side, units, rb in (('verify', CORE_UNITS, ['jwt_parse', 'jwt_verify_complete']),
                            ('generate', BUILDER_UNITS, ['jwt_head_setup', 'jwt_encode_str'])):
        q = Query('%s.errcopy.%s' % (prefix, side), 'errcopy.c', units, defines=['VJ_MAXM=4'] + (['SIDE_CHECKER'] if side == 'verify' else []),
                  unwind=14, checks='memsafe-noconv', budget=600, remove_bodies=rb,
                  bounds={'message': 'any NUL-terminated text that fits the per-call object\'s own message buffer'})
        q.unwindset = {'strlen.0': 600, 'strcpy.0': 600, 'terminated.0': 600, 'handed_back.0': 600, 'any_message.0': 600}
        out.append(q)
    return out


class C06(Spec):
    functions = CORE_FUNCS

    def prechecks(self, bld, tier='quick'):
        if tier != 'thorough':
            return []
        from . import selftest
        return [selftest.lowering_validation(bld)]

    def queries(self, tier, bld):
        qs = [core_q('C06.verdict.L12', ['PROP_C06'], L=12),
              core_q('C06.verdict.L16', ['PROP_C06'], L=16, budget=1800, tiers=('thorough',))]
        # memory safety + leak balance of the whole verify path, exact (end-aligned) allocator
        q = core_q('C06.core.mem.L8', ['PROP_C06_MEM', 'VF_EXACT_END', 'VJ_CHECK_DEAD', 'PV_MACLEN=1', 'NO_CB'], L=8, budget=900, unwind=14)
        q.checks = 'memsafe-noconv'
        q.defines = [d for d in q.defines if d != 'VF_FREE_NOOP']
        q.mem_gb = 10
        qs.append(q)
        qs += errcopy_qs('C06')
        # the codec under the exact allocator (shared with C11) and both provider verify units
        qs.append(Query('C06.codec.decode.M16', 'codec.c', CODEC_UNITS, models=['alloc', 'jansson_model', 'env'],
                        defines=['SIDE_DECODE', 'M=16', 'VF_EXACT_END', 'VF_CAP=24'], unwind=22, checks='memsafe-noconv', bounds={'M': 16}))
        qs.append(gnutls_q('C06.gnutls.verify.mem', ['SIDE_VERIFY']))
        qs.append(ossl_q('C06.ossl.verify.mem', ['SIDE_VERIFY', 'NOT_ES']))
        qs.append(ossl_q('C06.ossl.verify.mem.ES256', ['SIDE_VERIFY', 'ONLY_ALG=JWT_ALG_ES256'], budget=900))
        return qs


class C14(Spec):
    functions = CORE_FUNCS
    def queries(self, tier, bld):
        return errcopy_qs('C14') + [core_q('C14.verify.L12', ['PROP_C14', 'DIRTY_PRESTATE'], L=12),
                core_q('C14.verify.L16', ['PROP_C14', 'DIRTY_PRESTATE'], L=16, budget=1800, tiers=('thorough',)),
                builder_q('C14.builder', ['PROP_C14', 'DIRTY_PRESTATE'])] + self.map_qs(tier)

    @staticmethod
    def map_qs(tier):
        # "header/claim calls return the same code they store in the value's error field": the one-step typed-map
        # queries of C15 (stale value->error on entry, every name/type/replace combination) are obligations of C14 too
        qs = []
        for op, on in ((0, 'set'), (1, 'get')):
            for tg, tn in enumerate(('bhdr', 'bclaim', 'jhdr', 'jclaim')):
                if tier == 'quick' and tn in ('bhdr', 'jhdr'):
                    continue
                qs.append(Query('C14.map.%s.%s' % (on, tn), 'typedmap.c', MAP_UNITS,
                                models=['alloc', 'jansson_model', 'env', 'provider_stub'],
                                defines=['VF_FREE_NOOP', 'VJ_MAXM=4', 'ONLY_OP=%d' % op, 'ONLY_TARGET=%d' % tg],
                                unwind=12, budget=600,
                                bounds={'pre-state': 'any subset of 3 names with values of any JSON type', 'operations': 1,
                                        'names': 'NULL, empty, two colliding, one new', 'VJ_MAXM': 4,
                                        'value->error on entry': 'arbitrary (stale)'}))
        return qs


class C04(Spec):
    functions = CORE_FUNCS + ['jwt_checker_claim_set', 'jwt_checker_claim_del', 'jwt_checker_claim_get',
                              'jwt_checker_time_leeway', '__setter', '__deleter', 'jwt_set_str', 'jwt_obj_check']

    def queries(self, tier, bld):
        d = ['PROP_C04', 'CLAIMS_FULL', 'CLAIMS_SETUP', 'CLOCK_RANGE', 'VJ_MAXM=5']
        qs = [core_q('C04.claims.K2.L12', d + ['KOPS=2'], L=12)]
        if tier == 'thorough':
            qs.append(core_q('C04.claims.K3.L12', d + ['KOPS=3'], L=12, budget=1800))
        for q in qs:
            q.bounds.update({'VJ_MAXM': 5, 'KOPS': 2, 'CLEN': 3, 'clock': '[0,2^62]', 'leeway': '[-2^40,2^40]'})
        # configuration bookkeeping by one-step induction (histories of any length)
        for op, nm in enumerate(('time_leeway', 'claim_set', 'claim_del')):
            q = Query('C04.config.step.%s' % nm, 'cfgstep.c', CORE_UNITS, defines=['VF_FREE_NOOP', 'VJ_MAXM=4', 'ONLY_OP=%d' % op],
                      unwind=12, checks='verdict', budget=600, mem_gb=14,
                      bounds={'pre-state': 'arbitrary mask of the five checks, arbitrary leeways, expected strings <= 2 ASCII bytes',
                              'operations': '1 (inductive step)', 'secs': 'any long'})
            q.mem_expect = 3
            qs.append(q)
        return qs


CODEC_UNITS = ['libjwt/jwt.c', 'libjwt/jwt-memory.c', 'libjwt/base64.c']
GATE_UNITS = ['libjwt/jwt.c', 'libjwt/jwt-memory.c', 'libjwt/base64.c']


class C09(Spec):
    functions = ['openssl_verify_sha_pem', 'openssl_sign_sha_pem', 'gnutls_verify_sha_pem', 'gnutls_sign_sha_pem', 'jwt_sign', 'jwt_verify_sig', '_verify_sha_hmac', '__check_hmac', '__check_key_bits', 'sign_sha_hmac',
                 'jwt_base64uri_decode', 'jwt_base64uri_encode', 'base64_decode', 'base64_encode', 'jwt_strcmp']

    def queries(self, tier, bld):
        b = {'alg': 'all 14 signing algorithms', 'kty': 'all 4', 'bits': '[0, 2^31)', 'sig text': 'all 4-char strings'}
        qs = [Query('C09.gate.sign', 'gate.c', GATE_UNITS, defines=['SIDE_SIGN', 'VF_FREE_NOOP'], unwind=14, bounds=b),
              Query('C09.gate.verify', 'gate.c', GATE_UNITS, defines=['SIDE_VERIFY', 'VF_FREE_NOOP'], unwind=14, bounds=b)]
        # the part of the floor the providers enforce: key KIND for the algorithm (EdDSA only with
        # Ed25519/Ed448, RS*/PS* only with RSA, ES* only with EC) and EC field size against the algorithm
        qs += [ossl_q('C09.ossl.verify', ['SIDE_VERIFY', 'NOT_ES']),
               ossl_q('C09.ossl.verify.ES256', ['SIDE_VERIFY', 'ONLY_ALG=JWT_ALG_ES256'], budget=900),
               ossl_q('C09.ossl.sign', ['SIDE_SIGN']),
               gnutls_q('C09.gnutls.verify', ['SIDE_VERIFY']),
               gnutls_q('C09.gnutls.sign', ['SIDE_SIGN'])]
        if tier != 'quick':
            qs += [ossl_q('C09.ossl.verify.%s' % a, ['SIDE_VERIFY', 'ONLY_ALG=JWT_ALG_%s' % a], budget=900) for a in ('ES256K', 'ES384', 'ES512')]
        return qs


class C10(Spec):
    functions = BUILDER_FUNCS

    def queries(self, tier, bld):
        return [builder_q('C10.builder', ['PROP_C10'])]


def tworun_q(name, defines, L=12, budget=600, tiers=('quick', 'thorough'), mac=3):
    d = ['L=%d' % L, 'VF_FREE_NOOP', 'VF_CAP=%d' % (L + 8), 'PV_TAPE', 'PV_MACLEN=%d' % mac] + list(defines)
    return Query(name, 'core_tworun.c', CORE_UNITS, defines=d, unwind=L + 3, checks='verdict', budget=budget, tiers=tiers,
                 bounds={'L': L, 'VJ_MAXM': 4, 'VJ_SLEN': 8, 'PV_MACLEN': 3, 'runs compared': 2})


class C13(Spec):
    functions = CORE_FUNCS + ['jwt_checker_error_clear', 'jwt_checker_claim_set', 'jwt_checker_time_leeway']

    def queries(self, tier, bld):
        q = tworun_q('C13.checker.L8', ['PROP_C13'], L=8, mac=1)
        q.unwind = 14
        return [q, builder_q('C13.builder', ['PROP_C13', 'DIRTY_PRESTATE'])]


class C19(Spec):
    functions = CORE_FUNCS + ['jwt_claim_set', 'jwt_claim_del', 'jwt_header_set', 'jwt_header_del', '__setter', '__deleter']

    def queries(self, tier, bld):
        qs = [core_q('C19.cb.ops1.L12', ['PROP_C19', 'CB_MUTATES', 'CB_OPS=1', 'PV_TAPE', 'CLOCK_RANGE'], L=12, budget=600),
              core_q('C19.cb.ops2.L12', ['PROP_C19', 'CB_MUTATES', 'CB_OPS=2', 'PV_TAPE', 'CLOCK_RANGE'], L=12, budget=1800, tiers=('thorough',)),
              core_q('C19.cb.admit.L12', ['PROP_C19_ADMIT'], L=12)]
        return qs


class C11(Spec):
    functions = ['jwt_base64uri_encode', 'jwt_base64uri_decode', 'base64_encode', 'base64_decode', 'jwt_malloc', '__jwt_freemem']

    def queries(self, tier, bld):
        qs = []
        for (n, m, t, b) in ((12, 16, ('quick', 'thorough'), 300), (48, 64, ('thorough',), 1800)):
            capn = ((n + 2) // 3) * 4 + 2
            qs.append(Query('C11.encode.N%d' % n, 'codec.c', CODEC_UNITS, models=['alloc', 'jansson_model', 'env'],
                            defines=['SIDE_ENCODE', 'N=%d' % n, 'VF_EXACT_END', 'VF_CAP=%d' % (capn + 4)], unwind=capn + 4,
                            checks='memsafe-noconv', budget=b, tiers=t, bounds={'N': n}))
            qs.append(Query('C11.decode.M%d' % m, 'codec.c', CODEC_UNITS, models=['alloc', 'jansson_model', 'env'],
                            defines=['SIDE_DECODE', 'M=%d' % m, 'VF_EXACT_END', 'VF_CAP=%d' % (m + 8)], unwind=m + 6,
                            checks='memsafe-noconv', budget=b, tiers=t, bounds={'M': m}))
        return qs


OPS_UNITS = ['libjwt/jwt-crypto-ops.c', 'libjwt/jwt-memory.c']


class C12(Spec):
    functions = ['jwt_set_crypto_ops', 'jwt_set_crypto_ops_t', 'jwt_get_crypto_ops', 'jwt_get_crypto_ops_t', 'jwt_init', 'jwt_strcmp', 'openssl_process_ec', 'openssl_process_eddsa', 'openssl_process_rsa', 'pctx_to_pem']

    def queries(self, tier, bld):
        m = ['alloc', 'jansson_model', 'env']
        b = {'name/env length': '<= 9 bytes, all byte values', 'id': 'all int'}
        return [gnutls_q('C12.gnutls.verify', ['SIDE_VERIFY']), gnutls_q('C12.gnutls.sign', ['SIDE_SIGN']),
                ossl_q('C12.ossl.verify', ['SIDE_VERIFY', 'NOT_ES']), ossl_q('C12.ossl.verify.ES256', ['SIDE_VERIFY', 'ONLY_ALG=JWT_ALG_ES256'], budget=900),
                ossl_q('C12.ossl.sign', ['SIDE_SIGN']),
                import_q('C12.import.ec', 'EC', 'PROP_C12'), import_q('C12.import.okp', 'OKP', 'PROP_C12'),
                import_q('C12.import.rsa', 'RSA', 'PROP_C12', tiers=('thorough',)),
                Query('C12.ops.name', 'ops.c', OPS_UNITS, models=m, defines=['SIDE_NAME'], unwind=12, bounds=b),
                Query('C12.ops.id', 'ops.c', OPS_UNITS, models=m, defines=['SIDE_ID'], unwind=12, bounds=b),
                Query('C12.ops.init', 'ops.c', OPS_UNITS, models=m, defines=['SIDE_INIT'], unwind=12, bounds=b)]


MAP_UNITS = ['libjwt/jwt-builder.c', 'libjwt/jwt-setget.c', 'libjwt/jwt-memory.c', 'libjwt/jwt.c', 'libjwt/jwt-encode.c', 'libjwt/base64.c']


class C15(Spec):
    functions = ['jwt_builder_header_set', 'jwt_builder_header_get', 'jwt_builder_header_del', 'jwt_builder_claim_set',
                 'jwt_builder_claim_get', 'jwt_builder_claim_del', 'jwt_header_set', 'jwt_header_get', 'jwt_header_del',
                 'jwt_claim_set', 'jwt_claim_get', 'jwt_claim_del', '__run_it', '__setter', '__getter', '__deleter',
                 'jwt_set_int', 'jwt_set_str', 'jwt_set_bool', 'jwt_set_json', 'jwt_get_int', 'jwt_get_str',
                 'jwt_get_bool', 'jwt_get_json', 'jwt_obj_check']

    def prechecks(self, bld, tier='quick'):
        from . import selftest
        return [selftest.json_model_conformance(bld)]

    def queries(self, tier, bld):
        qs = []
        for op, on in enumerate(('set', 'get', 'del')):
            for tg, tn in enumerate(('bhdr', 'bclaim', 'jhdr', 'jclaim')):
                qs.append(Query('C15.map.%s.%s' % (on, tn), 'typedmap.c', MAP_UNITS,
                                models=['alloc', 'jansson_model', 'env', 'provider_stub'],
                                defines=['VF_FREE_NOOP', 'VJ_MAXM=4', 'ONLY_OP=%d' % op, 'ONLY_TARGET=%d' % tg],
                                unwind=12, budget=600,
                                bounds={'pre-state': 'any subset of 3 names with values of any JSON type', 'operations': 1,
                                        'names': 'NULL, empty, two colliding, one new', 'VJ_MAXM': 4}))
        for tg, tn in enumerate(('bhdr', 'bclaim', 'jhdr', 'jclaim')):
            if tier == 'quick' and tn in ('bhdr', 'jhdr'):
                continue
            qs.append(Query('C15.map.set.nested.%s' % tn, 'typedmap.c', MAP_UNITS,
                            models=['alloc', 'jansson_model', 'env', 'provider_stub'],
                            defines=['VF_FREE_NOOP', 'VJ_MAXM=4', 'ONLY_OP=0', 'ONLY_TARGET=%d' % tg, 'NESTED'],
                            unwind=12, budget=900,
                            bounds={'pre-state': 'any subset of 3 names; object/array values carry up to 2 members of any type',
                                    'operation': 'one JSON set (named or whole-object, with or without replace)', 'VJ_MAXM': 4}))
        return qs


RING_UNITS = ['libjwt/jwks.c', 'libjwt/jwt.c', 'libjwt/jwt-memory.c', 'libjwt/base64.c']
RING_FUNCS = ['jwks_create', 'jwks_load', 'jwks_load_strn', 'jwks_create_strn', 'jwks_load_fromfile', 'jwks_load_fromfp',
              '__jwks_load_strn', 'jwks_process', 'jwk_process_one', 'jwk_process_values', 'jwk_key_op_j', 'process_octet',
              'jwks_new', 'jwks_item_add', 'jwks_item_get', 'jwks_item_count', 'jwks_find_bykid', 'jwks_item_free',
              'jwks_item_free_bad', 'jwks_item_free_all', 'jwks_error_any', 'jwks_free', '__item_free', 'list_add_tail',
              'list_del', 'jwt_base64uri_decode', 'base64_decode', 'jwt_strcmp', 'jwt_str_alg']


def ring_q(name, defines, unwind=9, budget=600, tiers=('quick', 'thorough'), checks='memsafe-noconv', bounds=None):
    d = ['VJ_MAXM=5', 'VJ_SLEN=6', 'VJ_KLEN=7', 'VF_CAP=16', 'VJ_CHECK_DEAD'] + list(defines)
    return Query(name, 'keyring.c', RING_UNITS, defines=d, unwind=unwind, checks=checks, budget=budget, tiers=tiers,
                 bounds=bounds or {})


LIST_LOOPS = ['jwks_item_count', 'jwks_item_get', 'jwks_find_bykid', 'jwks_item_free', 'jwks_item_free_bad',
              'jwks_error_any', 'jwks_item_free_all']


class C16(Spec):
    functions = RING_FUNCS

    def queries(self, tier, bld):
        names = ['get', 'count', 'find', 'free_i', 'free_bad', 'error_any', 'free_all', 'jwks_free']
        qs = []
        for n in ((0, 1, 2, 3) if tier == 'quick' else (0, 1, 2, 3, 4)):
            for k, nm in enumerate(names):
                q = ring_q('C16.list.n%d.%s' % (n, nm), ['SIDE_LIST', 'NITEMS=%d' % n, 'ONLY_OP=%d' % k],
                           bounds={'keyring': 'the list of exactly %d items built by the real list_add_tail; error flags, kids '
                                   '(NULL, a, b, ab: duplicates possible), ownership (oct bytes / provider / none) symbolic' % n,
                                   'operations': '1 (inductive step; the full list representation invariant is re-established)'})
                q.unwindset = {f + '.0': n + 2 for f in LIST_LOOPS}
                q.mem_gb = 12 if (n >= 3 or (n >= 2 and nm in ('free_all', 'jwks_free', 'free_bad'))) else 3
                qs.append(q)
        # load side of "no sequence leaks": after a load, exactly what the release path will free is
        # live - an item that holds key bytes its release would skip (e.g. an oct item that became
        # errored after k was decoded) shows up here (same harness as C07.shape.single.create)
        q = ring_q('C16.load.own.single', ['SIDE_LOAD', 'SHAPE=2', 'ROUTE=0', 'PRE=0'],
                   bounds={'document': 'single JWK object, members kty,k,alg,kid each absent or of any JSON type'}, checks='verdict', budget=1200)
        q.unwindset = {f + '.0': 5 for f in LIST_LOOPS}
        q.mem_gb = 7
        qs.append(q)
        for q in qs:
            q.budget = max(q.budget, 1800)      # n3.free_all / n3.jwks_free: 110-440 s depending on load
        return qs


class C07(Spec):
    functions = RING_FUNCS

    def queries(self, tier, bld):
        routes = ['create', 'load', 'load_strn', 'fromfile', 'fromfp', 'create_strn']
        shapes = ['notjson', 'nonobject', 'single', 'keys_nonarray', 'keys0', 'keys1', 'keys2', 'keys2scalar']
        b = {'document': 'not JSON | any non-object top level | single JWK object | keys of any non-array type | keys array of 0,1,2 elements of any type',
             'JWK members': 'kty,k,alg,kid each absent or of any JSON type (use, key_ops: query C07.values); strings <= 6 arbitrary bytes'}
        qs = []

        def mk(sh, sn, rt, rn, pre, checks, mem):
            q = ring_q('C07.shape.%s.%s%s%s' % (sn, rn, '.pre' if pre else '', '' if checks == 'verdict' else '.mem'),
                       ['SIDE_LOAD', 'SHAPE=%d' % sh, 'ROUTE=%d' % rt, 'PRE=%d' % pre], bounds=b, checks=checks, budget=1200)
            q.unwindset = {f + '.0': 5 for f in LIST_LOOPS}
            q.mem_gb = mem
            return q
        heavy = ('single', 'keys1', 'keys2')
        for sh, sn in enumerate(shapes):
            if sn == 'keys2' or (sn == 'keys1' and tier == 'quick'):
                continue        # keys1: 760 s / 6.8 GB, keys2: > 29 GB - thorough tier
            # functional obligations for every shape on the create route (verdict mode)
            qs.append(mk(sh, sn, 0, 'create', 0, 'verdict', 7 if sn in heavy else 2))
            # all other entry points: cheap shapes always, the single-JWK shape in the thorough tier
            for rt, rn in enumerate(routes):
                if rn == 'create':
                    continue
                if sn in ('notjson', 'nonobject') or (tier == 'thorough' and sn == 'single'):
                    qs.append(mk(sh, sn, rt, rn, 0, 'verdict', 7 if sn in heavy else 2))
        # memory safety (CBMC pointer/bounds/overflow checks + exact ownership balance)
        qs.append(mk(2, 'single', 0, 'create', 0, 'memsafe-noconv', 11))
        if tier == 'thorough':
            qs.append(mk(5, 'keys1', 1, 'load', 1, 'memsafe-noconv', 14))      # 540 s, 10.9 GB
        for sn in ('notjson', 'nonobject', 'keys_nonarray', 'keys0'):
            qs.append(mk(shapes.index(sn), sn, 1, 'load', 1, 'memsafe-noconv', 10 if sn == 'nonobject' else 3))
        if tier == 'thorough':
            q = mk(6, 'keys2', 0, 'create', 0, 'verdict', 40)
            q.budget = 5400
            qs.append(q)
        # counted-length entry points: exactly sized buffer of symbolic length 0..3 with arbitrary bytes
        for sh, sn in ((0, 'notjson'), (1, 'nonobject')):
            for rt, rn in ((2, 'load_strn'), (5, 'create_strn')):
                q = ring_q('C07.strn.%s.%s' % (sn, rn), ['SIDE_LOAD', 'SHAPE=%d' % sh, 'ROUTE=%d' % rt, 'PRE=0', 'STRN_SYMBOLIC'],
                           bounds={'text': 'exactly sized buffer of 0..3 arbitrary bytes (NUL included)', 'document': sn}, checks='memsafe-noconv', budget=900)
                q.unwindset = {f + '.0': 5 for f in LIST_LOOPS}
                q.mem_gb = 10 if sn == 'nonobject' else 3
                qs.append(q)
        for kty in ('RSA', 'EC', 'OKP'):
            qs.append(import_q('C07.item.%s' % kty.lower(), kty, 'PROP_C07'))
        qs.append(Query('C07.values', 'keyring.c', RING_UNITS, defines=['SIDE_VALUES', 'VJ_MAXM=4', 'VJ_SLEN=10', 'VF_CAP=16'],
                        unwind=13, checks='memsafe-noconv', budget=600,
                        bounds={'members': 'alg, use, key_ops, kid each absent or of any JSON type; key_ops array of <= 2 elements of any type; strings <= 10 bytes'}))
        return qs


def usage_options(tool_src):
    """options documented in the tool's own usage() text: (short, long, has_arg)"""
    import re
    txt = open(tool_src).read()
    m = re.search(r'usage\(const char \*error.*?\n}', txt, re.S)
    body = m.group(0) if m else txt
    out = []
    for mm in re.finditer(r'^\s*-(\w), --([\w-]+)(=\S+)?\s', body, re.M):
        out.append((mm.group(1), mm.group(2), 1 if mm.group(3) else 0))
    return out


def write_opts_header(path, opts):
    with open(path, 'w') as f:
        f.write('/* generated on every run from the usage() text of the tool */\n')
        f.write('struct c20_opt { char shortc; const char *longn; int has_arg; };\n')
        f.write('static const struct c20_opt c20_opts[] = {\n')
        for s_, l_, a_ in opts:
            f.write('\t{ \'%s\', "%s", %d },\n' % (s_, l_, a_))
        f.write('};\n#define C20_NOPTS %d\n' % len(opts))


TOOLV_UNITS = ['tools/jwt-verify.c', 'libjwt/jwt.c', 'libjwt/jwt-memory.c', 'libjwt/base64.c']
TOOL_MODELS = ['alloc', 'jansson_model', 'env', 'provider_stub', 'getopt_model']


class C20(Spec):
    functions = ['main (tools/jwt-verify.c)', 'process_one', 'print_token_trunc', 'jwt_str_alg', 'jwt_alg_str']

    def prechecks(self, bld, tier='quick'):
        from . import selftest
        return [selftest.getopt_model_conformance(bld)]

    def queries(self, tier, bld):
        import os
        from .build import REPO
        qs = []
        # the tool's main() is renamed by the translation pipeline (-Dmain=tool_main), not in /repo
        tool_gb = bld.goto_unit('tools/jwt-verify.c', extra=['-Dmain=tool_main'], suffix='tool')
        ns = (1, 2, 3, 255, 256, 257) if tier == 'quick' else (1, 2, 3, 4, 8, 64, 255, 256, 257, 511, 512, 513)
        for n in ns:
            for stdin in (0, 1):
                # stdin route: the tool reads into a BUFSIZ array per line; beyond a few dozen lines the
                # array encoding runs out of memory, so the wrap-around counts are taken on the argv route
                if stdin and n > 16:
                    continue
                if tier == 'quick' and stdin and n not in (1, 2):
                    continue
                for quiet in ((0, 1) if n in (256, 512) else (n % 2,)):
                    d = ['SIDE_EXIT', 'NTOK=%d' % n, 'VF_FREE_NOOP'] + (['STDIN'] if stdin else []) + (['QUIET'] if quiet else [])
                    q = Query('C20.exit.n%d.%s%s' % (n, 'stdin' if stdin else 'argv', '.quiet' if quiet else ''), 'tool_verify.c', TOOLV_UNITS, models=TOOL_MODELS,
                              defines=d, unwind=16, checks='verdict', budget=600,
                              bounds={'tokens': n, 'route': 'stdin' if stdin else 'argv', 'verdict vectors': 'all 2^%d' % n})
                    q.unwindset = {'tool_main.%d' % k: max(17, n + 2) for k in range(4)}
                    q.unwindset['main.0'] = n + 2
                    q.unit_override = {'tools/jwt-verify.c': tool_gb}
                    qs.append(q)
        # stdin route, line handling: arbitrary line text, last line with or without a newline
        for n in ((2,) if tier == 'quick' else (1, 2, 3)):
            q = Query('C20.stdin.lines.n%d' % n, 'tool_verify.c', TOOLV_UNITS, models=TOOL_MODELS,
                      defines=['SIDE_EXIT', 'STDIN', 'LINES', 'QUIET', 'NTOK=%d' % n, 'VF_FREE_NOOP'], unwind=16, checks='pointer', budget=900,
                      bounds={'lines': n, 'line text': '0..3 arbitrary bytes (no NUL, no newline)', 'last line': 'with or without a newline'})
            q.unwindset = {'tool_main.%d' % k: 17 for k in range(4)}
            q.unit_override = {'tools/jwt-verify.c': tool_gb}
            q.mem_gb = 10
            qs.append(q)
        opts = usage_options(os.path.join(REPO, 'tools/jwt-verify.c'))
        write_opts_header(os.path.join(bld.gen, 'c20_verify_opts.h'), opts)
        # "... a JWK that the library imports without error": the importer accepts every well-formed
        # member encoding key2jwk can emit - fixed-width EC members with leading zero octets included
        qs.append(import_q('C20.import.ec', 'EC', 'PROP_C08'))
        if tier != 'quick':
            qs.append(import_q('C20.import.rsa', 'RSA', 'PROP_C08'))
            qs.append(import_q('C20.import.okp', 'OKP', 'PROP_C08'))
        # key2jwk: one parse_one_file() call from an arbitrary state of the tool's own statics
        from . import c18
        bld.build_units(['tools/key2jwk.c'])
        k2j_ov, k2j_listed = c18.instrument(bld, ['tools/key2jwk.c'], os.path.join(bld.gen, 'c20_k2j_gen.h'), 'k2j', extra=['-Dmain=tool_main'])
        q = Query('C20.key2jwk.file.step', 'tool_key2jwk_file.c', ['tools/key2jwk.c', 'libjwt/jwt-memory.c'], models=['alloc', 'jansson_model', 'env'],
                  defines=['VJ_MAXM=6', 'VJ_SLEN=8'], unwind=12, checks='pointer', budget=600,   # counters are arbitrary: no overflow checks
                  remove_bodies=['__CPROVER_file_local_key2jwk_c_' + f for f in ('process_rsa_key', 'process_ec_key', 'process_eddsa_key', 'process_hmac_key', 'uuidv4')],
                  bounds={'file': 'public PEM | private PEM | neither; key type any int; size 0..3*BUFSIZ; leading bytes arbitrary',
                          'tool statics (arbitrary before the call)': [x['name'] for x in k2j_listed if not x['local_in']]})
        q.includes = [bld.gen]
        q.unit_override = k2j_ov
        qs.append(q)
        # key2jwk: fixed-width EC members (process_ec_key driven directly)
        k2j = bld.goto_unit('tools/key2jwk.c', extra=['-Dmain=tool_main'], suffix='tool')
        for bits in ((256,) if tier == 'quick' else (256, 384, 521)):
            w = (bits + 7) // 8
            sl = ((w + 2) // 3) * 4 + 1
            q = Query('C20.key2jwk.ec.%d' % bits, 'tool_key2jwk.c', ['tools/key2jwk.c', 'libjwt/jwt.c', 'libjwt/jwt-memory.c', 'libjwt/base64.c'],
                      models=['alloc', 'jansson_model', 'env', 'provider_stub', 'openssl_stubs', 'openssl_stubs_key2jwk'],
                      defines=['BITS=%d' % bits, 'VJ_SLEN=%d' % sl, 'VJ_MAXM=5', 'VF_CAP=%d' % (sl + 4), 'VO_WITH_JWK', 'VF_FREE_NOOP'],
                      unwind=sl + 28, checks='verdict', budget=1200, mem_gb=12,
                      bounds={'curve bits': bits, 'x, y, d': 'every integer below 2^%d (all lengths 0..%d bytes)' % (8 * w, w)})
            q.unit_override = {'tools/key2jwk.c': k2j}
            qs.append(q)
        names = ['short', 'short_detached', 'long', 'long_detached']
        # jwt-generate: every documented option in every spelling
        gen_gb = bld.goto_unit('tools/jwt-generate.c', extra=['-Dmain=tool_main'], suffix='tool')
        gopts = usage_options(os.path.join(REPO, 'tools/jwt-generate.c'))
        write_opts_header(os.path.join(bld.gen, 'c20_generate_opts.h'), gopts)
        for wi, (sc, ln, ha) in enumerate(gopts):
            for sp in range(4):
                if not ha and sp in (1, 3):
                    continue
                q = Query('C20.opts.generate.%s.%s' % (ln, names[sp]), 'tool_generate.c',
                          ['tools/jwt-generate.c', 'libjwt/jwt.c', 'libjwt/jwt-memory.c', 'libjwt/base64.c'], models=TOOL_MODELS,
                          defines=['VF_FREE_NOOP', 'WHICH=%d' % wi, 'SPELLING=%d' % sp], unwind=34, checks='verdict', budget=300,
                          bounds={'option': '-%s/--%s%s' % (sc, ln, '=ARG' if ha else ''), 'spelling': names[sp]})
                q.includes = [bld.gen]
                q.unwindset = {'tool_main.%d' % k: 17 for k in range(4)}
                q.unit_override = {'tools/jwt-generate.c': gen_gb}
                q.mem_expect = 1
                qs.append(q)
        for wi, (sc, ln, ha) in enumerate(opts):
            for sp in range(4):
                if not ha and sp in (1, 3):
                    continue
                q = Query('C20.opts.verify.%s.%s' % (ln, names[sp]), 'tool_verify.c', TOOLV_UNITS, models=TOOL_MODELS,
                          defines=['SIDE_OPTS', 'VF_FREE_NOOP', 'WHICH=%d' % wi, 'SPELLING=%d' % sp],
                          unwind=34, checks='verdict', budget=300,
                          bounds={'option': '-%s/--%s%s' % (sc, ln, '=ARG' if ha else ''), 'spelling': names[sp]})
                q.includes = [bld.gen]
                q.unwindset = {'tool_main.%d' % k: 17 for k in range(4)}
                q.unit_override = {'tools/jwt-verify.c': tool_gb}
                qs.append(q)
        return qs


class C18(Spec):
    level = 'other'
    functions = CORE_FUNCS + BUILDER_FUNCS

    def queries(self, tier, bld):
        from . import c18
        import os
        qs = []
        for nm, units in (('verify', CORE_UNITS), ('generate', BUILDER_UNITS)):
            bld.build_units(units)
            hdr = os.path.join(bld.gen, 'c18_gen.h' if nm == 'verify' else 'c18b_gen.h')
            overrides, listed = c18.instrument(bld, units, hdr, nm)
            if nm == 'verify':
                q = core_q('C18.footprint.verify.L12', ['PROP_C18'], L=12, budget=600)
            else:
                q = builder_q('C18.footprint.generate', ['PROP_C18'])
            q.includes = [bld.gen]
            q.unit_override = overrides
            q.unwindset = {}
            q.bounds['statics enumerated'] = [x['name'] + (' (local to %s)' % x['local_in'] if x['local_in'] else '') for x in listed]
            qs.append(q)
        # provider units: no use of library entry points documented as not thread-safe (static result buffers)
        qs.append(ossl_q('C18.ossl.sign', ['SIDE_SIGN']))
        # provider units: their own static-lifetime objects are not written by sign / verify
        for prov, units, mk, hn in (('gnutls', GNUTLS_UNITS, gnutls_q, 'c18g_gen.h'), ('ossl', OSSL_UNITS, ossl_q, 'c18o_gen.h')):
            units = units + ['libjwt/jwt-crypto-ops.c']      # owns jwt_ops and the provider table
            bld.build_units(units)
            overrides, listed = c18.instrument(bld, units, os.path.join(bld.gen, hn), prov)
            sides = [('verify', ['SIDE_VERIFY'] + (['NOT_ES'] if prov == 'ossl' else [])), ('sign', ['SIDE_SIGN'])]
            if prov == 'ossl':
                sides.append(('verify.ES256', ['SIDE_VERIFY', 'ONLY_ALG=JWT_ALG_ES256']))
            for side, defs in sides:
                q = mk('C18.footprint.%s.%s' % (prov, side), defs + ['PROP_C18'])
                q.units = list(units)
                q.includes = [bld.gen]
                q.unit_override = overrides
                q.bounds['statics enumerated'] = [x['name'] + (' (local to %s)' % x['local_in'] if x['local_in'] else '') for x in listed]
                qs.append(q)
        return qs


class C05(Spec):
    functions = ['gnutls_sign_sha_pem', 'gnutls_sign_sha_hmac', 'gnutls_verify_sha_pem']

    def queries(self, tier, bld):
        qs = [gnutls_q('C05.gnutls.sign_ec.%s' % a[8:], ['SIDE_SIGN_EC', 'ONLY_ALG=%s' % a], budget=1800)
              for a in (('JWT_ALG_ES256', 'JWT_ALG_ES512') if tier == 'quick' else ('JWT_ALG_ES256', 'JWT_ALG_ES384', 'JWT_ALG_ES512'))]
        qs.append(gnutls_q('C05.gnutls.sign', ['SIDE_SIGN']))
        qs += [ossl_q('C05.ossl.sign_ec.%s' % a[8:], ['SIDE_SIGN_EC', 'ONLY_ALG=%s' % a], budget=900)
               for a in (('JWT_ALG_ES256',) if tier == 'quick' else ('JWT_ALG_ES256', 'JWT_ALG_ES256K', 'JWT_ALG_ES384', 'JWT_ALG_ES512'))]   # ES512: 700 s
        for q in qs:
            if 'ossl.sign_ec' in q.name:
                q.budget = 3000
        qs.append(ossl_q('C05.ossl.sign', ['SIDE_SIGN']))
        qs.append(ossl_q('C05.ossl.verify.pss', ['SIDE_VERIFY', 'NOT_ES']))
        # delivery half: what generate serialises (flag word of the printer, alg/typ/iat/nbf/exp members)
        qs.append(builder_q('C05.builder.serialise', ['PROP_C05']))
        return qs


class C08(Spec):
    functions = IMPORT_FUNCS + ['jwk_process_values', 'jwk_key_op_j', 'process_octet']

    def queries(self, tier, bld):
        qs = [import_q('C08.item.%s' % kty.lower(), kty, 'PROP_C08') for kty in ('RSA', 'EC', 'OKP')]
        qs.append(Query('C08.values', 'keyring.c', RING_UNITS, defines=['SIDE_VALUES', 'VJ_MAXM=4', 'VJ_SLEN=10', 'VF_CAP=16'],
                        unwind=13, checks='memsafe-noconv', budget=600,
                        bounds={'members': 'alg, use, key_ops, kid each absent or of any JSON type; key_ops array of <= 2 elements; strings <= 10 bytes'}))
        qs.append(Query('C08.oct', 'keyring.c', RING_UNITS, defines=['SIDE_OCT', 'VJ_MAXM=2', 'VJ_SLEN=12', 'VF_CAP=20'],
                        unwind=16, checks='memsafe-noconv', budget=600,
                        bounds={'k': 'any JSON type; strings of <= 12 arbitrary bytes (<= 9 key bytes)'}))
        return qs


class C17(Spec):
    level = 'fault_enumeration'
    functions = CORE_FUNCS + BUILDER_FUNCS + RING_FUNCS

    def queries(self, tier, bld):
        qs = []
        kv = range(0, 18) if tier == 'quick' else range(0, 26)
        for k in kv:
            q = core_q('C17.verify.k%02d' % k, ['PROP_C17', 'PROP_C01', 'PROP_C02', 'PROP_C03', 'FAULT_K=%d' % k, 'VJ_CHECK_DEAD', 'VF_NO_REACH'], L=12, budget=600)
            q.checks = 'pointer'
            q.defines = [d for d in q.defines if d != 'VF_FREE_NOOP']
            q.bounds['failing allocation index'] = k
            qs.append(q)
        for k in (range(0, 16) if tier == 'quick' else range(0, 24)):
            # verdict mode: the builder path with pointer checks does not finish (>600 s per index);
            # crashes under fault are searched on the verify and load paths, content/flag here
            q = builder_q('C17.generate.k%02d' % k, ['PROP_C17', 'PROP_C10', 'FAULT_K=%d' % k, 'VF_NO_REACH', 'C17_SIMPLE'])
            q.bounds['failing allocation index'] = k
            qs.append(q)
        # object lifecycle: new / configure / free with the k-th request failing (memory safety on)
        for side, units in (('checker', CORE_UNITS), ('builder', BUILDER_UNITS)):
            for k in ([-1] + list(range(0, (8 if side == 'checker' else 14) if tier == 'quick' else 18))):
                q = Query('C17.lifecycle.%s.%s' % (side, 'nofault' if k < 0 else 'k%02d' % k), 'lifecycle.c', units,
                          defines=['FAULT_K=%d' % k, 'VJ_CHECK_DEAD', 'VJ_FREE_ROOTS', 'VJ_MAXM=4'] + (['SIDE_CHECKER'] if side == 'checker' else []),
                          unwind=14, checks='memsafe-noconv', budget=600,
                          bounds={'failing allocation index': k, 'scenario': 'new, setkey, one claim (and header) set/get, leeway/offset, free'})
                qs.append(q)
        for sh, sn in ((2, 'single'), (5, 'keys1')):
            # the later the fault, the more of the (memory-hungry) load path is executed symbolically
            ks = (range(0, 6) if sn == 'single' else range(0, 4)) if tier == 'quick' else range(0, 11)
            for k in ks:
                q = ring_q('C17.load.%s.k%02d' % (sn, k), ['SIDE_LOAD', 'SHAPE=%d' % sh, 'ROUTE=1', 'PRE=%d' % (1 if sn == 'keys1' else 0), 'FAULT_K=%d' % k, 'VF_NO_REACH', 'JWK_SMALL'],
                           bounds={'failing allocation index': k, 'document': sn + ' (members kty, k, kid)'}, checks='pointer', budget=1500)
                q.mem_gb = (3 if k < 3 else 14) if sn == 'single' else (3 if k < 2 else 14)
                q.unwindset = {f + '.0': 5 for f in LIST_LOOPS}
                qs.append(q)
        return qs


PROPS.update({'C17': C17(), 'C08': C08(), 'C05': C05(), 'C20': C20(), 'C18': C18(), 'C07': C07(), 'C16': C16(), 'C15': C15(), 'C12': C12(), 'C10': C10(), 'C11': C11(), 'C13': C13(), 'C19': C19(), 'C09': C09(), 'C04': C04(), 'C02': C02(), 'C03': C03(), 'C06': C06(), 'C14': C14()})


# ---------------------------------------------------------------------------------------------
# MANIFEST texts
_T = {
 'C02': ('Bounded model checking: the whole (configured alg x key alg x key kind x header alg x route x signature) matrix is '
         'symbolic in ONE query per layer; setkey admits exactly the documented table, acceptance implies header alg == pinned '
         'alg, no crypto without key+alg, HMAC only with oct keys, provider primitives only after the key-family test; same on '
         'the builder. setkey is checked as ONE STEP from an arbitrary earlier pin (refused => the earlier pin stays), and verification leaves '
         'the stored pin untouched (histories of any length). Bounded (token <= L bytes).',
         'oracle provider at the core layer; EVP_PKEY type at the OpenSSL layer is a symbolic tag; GnuTLS family test is inside '
         'gnutls_pubkey_verify_data2 (modelled as documented)'),
 'C03': ('Bounded model checking of verify and generate with symbolic configuration (setkey and/or callback) and all tokens <= L: '
         'with a key no empty signature / alg none is accepted or emitted; without a key only alg exactly "none" with an empty third segment; '
         'a refused setkey does not take an earlier key away (step from an arbitrary earlier pin, checker and builder).',
         'oracle provider; JSON parser havocked; token length <= L'),
 'C04': ('Bounded model checking: K symbolic configuration calls (claim_set/claim_del/time_leeway) mirrored on a reference policy, '
         'then verify under a symbolic clock with exp/nbf/iss/sub/aud absent or of any JSON type; accepted => every check passes '
         '(128-bit reference arithmetic), claims fail => no crypto; unsigned tokens accepted EXACTLY when the checks pass; a string claim that '
         'goes on after a NUL (only possible if the parser is given JSON_ALLOW_NUL) equals no expected value; one-step configuration queries.',
         'clock in [0,2^62], leeways in [-2^40,2^40], expected strings <= 3 ASCII bytes, K <= 2 (quick) / 3 (thorough) calls'),
 'C05': ('Bounded model checking of the provider sign/verify units: ECDSA DER <-> fixed-width r||s conversion for EVERY minimal-length '
         'r and s (both providers), output exactly 2*field bytes; PSS parameters on both sides; deterministic algorithms hand back the '
         "primitive's bytes; signing input and key are exactly those handed in; on the builder the dump flag word, the alg header and the "
         "iat/nbf/exp DELIVERED (offsets up to +-2^40 through the real API) are what the builder was told. Round trip of real signatures is the crypto libraries'.",
         'OpenSSL/GnuTLS primitives are oracles (M4/M5); the content-equality half (checker sees what the builder was given) is split '
         'between C10 (what is dumped) and C01 (what is parsed is what was authenticated); JSON text fidelity is jansson\'s'),
 'C06': ('Bounded model checking: every token <= L bytes: fewer than two dots, undecodable segment 1, header not an object / no known '
         'string alg, segment 2 not JSON => non-zero; memory safety (CBMC bounds/pointer checks, exact end-aligned allocator) of the '
         'codec and of the provider verify units for all signature lengths; the hand-back of the per-call error message is in bounds for ANY '
         'message that fits its source buffer (contract stubs around the real tail of verify/generate); loops bounded by unwinding assertions.',
         'token <= L (12..16) bytes, not tens of kilobytes; leak freedom by per-unit balance obligations, not end to end'),
 'C07': ('Bounded model checking of the load path with a havocked parser: for each document SHAPE (not JSON, non-object, single JWK, keys of '
         'any type, keys array of 0..2 elements of any type) and every member absent or of any JSON type: item count/order, error<=>message, '
         'usable-or-errored, memory safety, ownership balance; the provider parsers are discharged separately for RSA/EC/OKP against the '
         'same contract, every OpenSSL stub asserting its documented preconditions; counted-length entry points on exactly sized buffers of '
         'symbolic length 0..3; parser error text never used as a printf format.',
         'JSON grammar is jansson\'s (parser havocked); strings <= 6..8 bytes; <= 2 keys per set; OpenSSL is stubbed (M4)'),
 'C08': ('Bounded model checking of the JWK importers on arbitrary members: the (parameter name, bytes) pairs handed to OpenSSL are exactly '
         'the RFC 7518 members of the key type with bytes = reference base64url decoding; curve mapping, private/public, alg/use/key_ops/kid, '
         'oct bytes and bits as the JWK states; foreign members never reach the provider; well-formed members (minimal or zero-padded) import '
         'without error whenever no OpenSSL stub fails.',
         'that EVP_PKEY_fromdata + PEM writing denote the same key, and the reported bit size, are OpenSSL\'s (oracles); member strings <= 5..12 bytes'),
 'C09': ('Model checking of jwt_sign / jwt_verify_sig with a symbolic (alg, key kind, bits) triple: the crypto oracle is reached IFF the '
         'floor predicate of the property holds (both directions), failure sets the error. Exhaustive over all algorithms and all sizes < 2^31. '
         'Provider layer (real OpenSSL/GnuTLS sign-verify units over primitive stubs): a primitive is consulted only with a key of the kind the '
         'algorithm needs (EdDSA: Ed25519/Ed448 only; RS*/PS*: RSA; ES*: EC whose field size fits the algorithm).',
         'recorded sizes >= 2^31 bits excluded (size_t -> int narrowing in the gate); bits == 8*len for oct items is proved by the import harness; '
         'key kind at the provider layer is a symbolic tag of the stub key object'),
 'C10': ('Bounded model checking of generate with a symbolic configuration history, clock and callback: the token equals '
         'b64url(dump(H)).b64url(dump(P)).b64url(sig) by an independent encoder; H/P contents at dump time (alg forced, typ default, iat/nbf/exp '
         'injection and overriding, callback edits only in this token); builder unchanged; signing input exactly header.payload; public keys refused.',
         'json_dumps is an oracle returning arbitrary text <= 3 bytes (the relation tree -> text is jansson\'s); signature <= 3 bytes'),
 'C11': ('Bounded model checking of the codec against a bitwise RFC 4648 reference under an exact allocator: all byte strings of length 1..N '
         'encode to the reference text and round-trip; all NUL-free texts of length 0..M are rejected or decode exactly as the reference says; '
         'every out-of-buffer access is a CBMC bounds violation (incl. the terminator slot).',
         'N=12/M=16 quick, N=48/M=64 thorough; lengths beyond are outside the claim'),
 'C12': ('Model checking: provider selection by every name <= 9 bytes / every int id / every JWT_CRYPTO value is decided completely; both '
         'provider units are checked against the same contract (accepted <=> return 0 and flag clear; a signature the primitive rejects is '
         'rejected; deterministic algorithms copy the primitive output; same ECDSA length rule); a key imported while either provider is active '
         'carries the OpenSSL key object, its OpenSSL tag and a PEM (usable under both).',
         'agreement of the two libraries\' primitives themselves is outside (oracles)'),
 'C13': ('Bounded model checking, two obligations: frame (verify/generate leave every configuration field and the stored trees unchanged, '
         'from an arbitrary error pre-state) and independence (two verify runs on the same token/config/clock/parse results/oracle tape, one '
         'from an arbitrary error state and one from a cleared one, return the same). Together: reused == fresh for histories of any length.',
         'independence query at L=8 with 1-byte MAC (the two-run miter is the costliest query); builder side: frame + functional determinism (C10)'),
 'C14': ('Bounded model checking from an arbitrary error pre-state: verify != 0 <=> flag set; failure => non-empty message; success => flag '
         'clear and message empty; generate NULL <=> flag with message; refused setkey reported; item error => message (C07); the message handed '
         'back after a failing step is non-empty for every message length that fits the buffer; every header/claim set and get (one step from an '
         'arbitrary map, stale value->error) returns exactly the code it stores in value->error.',
         'message content is not examined; snprintf modelled as writing the first literal character of its format (errcopy queries: any text)'),
 'C15': ('Model checking by one-step induction: from an ARBITRARY pre-state object one arbitrary set/get/del (all types, names NULL/empty/'
         'colliding/new, replace, JSON parse result havocked) on builder and jwt_t wrappers, headers and claims, compared with a reference map; '
         'failed operations change nothing; return == value->error; JSON sets also with members that carry members of their own (overwrite vs merge). '
         'The container model is checked against the real jansson on every run (conformance precheck).',
         'the container itself is the jansson model; values <= 2 ASCII bytes; invalid UTF-8 excluded'),
 'C16': ('Model checking by one-step induction over every keyring of 0..3 (4) items built by the real list code: each operation vs a reference '
         'sequence, the full doubly-linked-list invariant re-established, exact release accounting, CBMC memory-safety checks on; after a real '
         'load of a single JWK exactly what the release path will free is live.',
         'list STRUCTURE is concrete per query (a symbolic structure makes the release path explode), contents symbolic'),
 'C17': ('Fault enumeration by the solver: for each scenario every index k of the allocations it performs fails (one query per k, inputs '
         'symbolic): no memory-safety failure, failure reported through the documented channel or result identical in kind to the fault-free run; '
         'object lifecycle (new / setkey / integer, string and JSON-typed sets / free) under the fault with pointer checks (no dangling handle, no double release).',
         'OpenSSL/GnuTLS internal allocations are not routed through jwt_set_alloc; leaks under fault are not asserted'),
 'C18': ('Sequential footprint condition decided by the solver (Bernstein): on all inputs within the C01/C10 bounds verify and generate '
         'leave every static-lifetime non-const object of the libjwt units (enumerated from the goto symbol table on every run), the shared key '
         'item and its material, and an unrelated checker/builder unchanged; functions owning function-local statics must be unreachable; the '
         'provider units (with the real provider table) likewise, re-checked at every call out to the crypto library or the other provider '
         '(a set/call/restore of a process-wide object is seen there). '
         'No interleaving is explored.',
         'thread safety of OpenSSL/GnuTLS/jansson assumed; a write of the value already present is invisible; a correctly synchronised static would be a false alarm'),
 'C19': ('Bounded model checking: at the fork point (inside the callback) the real continuation is run on a deep clone of the unedited token '
         'object with the same oracle tape; the verdict after a callback program of up to 1 (2) edits equals it. Callback error => failure; '
         'callback-selected key/alg obey the setkey table.',
         'edit menu: delete/replace-by-int/replace-by-string/add-bool on exp,nbf,iss; delete-all claims/headers; overwrite alg header'),
 'C20': ('Model checking of the real jwt-verify main() over API stubs: for n tokens (argv and stdin routes) and ALL 2^n verdict vectors exit '
         'status == 0 <=> all verified (n up to 257 / 513); every option documented in usage() (parsed from the source each run) in every spelling '
         'is accepted and its argument reaches the library, likewise for jwt-generate; every stdin line (last one with or without newline) reaches '
         'the library as one token; key2jwk writes EC x, y, d with the full field width for every integer value and the importer accepts them; '
         'one parse_one_file() call of key2jwk from an arbitrary state of its statics converts THAT file (PEM key -> converter of its type, '
         'otherwise raw secret of exactly the bytes read).',
         'getopt_long is a model (no permutation, no abbreviations; checked against glibc on every run); key2jwk: process_ec_key and parse_one_file are encoded (RSA/OKP/oct converters are contract stubs); jwk2key is covered only through the library properties'),
}
for _k, (_a, _b) in _T.items():
    if _k in PROPS:
        PROPS[_k].level_text = _a
        PROPS[_k].level_note = _b
        PROPS[_k].design_ref = 'DESIGN.md section 5 ' + _k
PROPS['C18'].technique = 'bounded model checking (CBMC) of a sequential frame/footprint condition that implies race freedom; no schedule explored'
if 'C17' in PROPS:
    PROPS['C17'].technique = 'solver-based fault enumeration: one CBMC query per failing-allocation index, inputs symbolic'
