"""MANIFEST.setup_cmd: nothing persistent is needed; warm the cmake-configure cache and check tools."""
import shutil
import sys

from . import build as B


def main():
    for t in ('cbmc', 'goto-cc', 'goto-instrument', 'gcc', 'cmake'):
        if not shutil.which(t):
            print('missing tool', t)
            return 1
    B.configure()
    print('setup ok')
    return 0


if __name__ == '__main__':
    sys.exit(main())
