"""known_findings.txt (committed, never written at run time).

  finding: property=<id> key=<KEY> query=<regex> assertion=<regex> :: <what fails>
  fixed:   property=<id> <commit> <what failed>

A `finding` names (a) the queries it concerns, (b) the obligations that fail because of it and
(c) a KEY: harnesses compile with -DKF_<KEY> to EXCLUDE the finding's input region by assumption
(re-proving the property everywhere else) and with -DKFPROBE_<KEY> to RESTRICT the query to that
region (confirming the finding still exists -> prints KNOWN-FINDING).  `fixed:` entries exclude
nothing.
"""
import copy
import os
import re

from .build import VERIF

PATH = os.path.join(VERIF, 'known_findings.txt')


def load(pid):
    out = []
    if not os.path.exists(PATH):
        return out
    for line in open(PATH):
        line = line.strip()
        if not line.startswith('finding:'):
            continue
        head, _, text = line[len('finding:'):].partition('::')
        kv = dict(m.group(1, 2) for m in re.finditer(r'(\w+)=(\S+)', head))
        if kv.get('property') != pid:
            continue
        out.append({'key': kv['key'], 'query': kv.get('query', '.*'), 'assertion': kv.get('assertion', '.*'),
                    'text': text.strip()})
    return out


def apply(queries, findings):
    if not findings:
        return queries
    out = []
    for q in queries:
        rel = [f for f in findings if re.search(f['query'], q.name)]
        if not rel:
            out.append(q)
            continue
        main = copy.copy(q)
        main.defines = list(q.defines) + ['KF_' + f['key'] for f in rel]
        out.append(main)
        for f in rel:
            pr = copy.copy(q)
            pr.name = q.name + '.kfprobe.' + f['key']
            pr.defines = list(q.defines) + ['KFPROBE_' + f['key']]
            pr.expect_fail = [f['assertion']]
            pr.kf_probe = f
            out.append(pr)
    return out
