"""python3 -m vf.seeded [Sxx-Cyy ...] [--also Cxx,Cyy]: apply each seeded change to /repo, run the check of the
property it breaks (plus optional others), revert, and record the outcome in seeded/<id>/meta.json."""
import json
import os
import subprocess
import sys
import time

from .build import VERIF, REPO

SD = os.path.join(VERIF, 'seeded')


def run(sid, extra=()):
    d = os.path.join(SD, sid)
    meta = json.load(open(os.path.join(d, 'meta.json')))
    patch = os.path.join(d, 'patch.diff')
    assert subprocess.run(['git', '-C', REPO, 'status', '--porcelain', '--untracked-files=no'], stdout=subprocess.PIPE, text=True).stdout.strip() == '', '/repo not clean'
    subprocess.run(['git', '-C', REPO, 'apply', patch], check=True)
    results = {}
    try:
        for pid in [meta['property']] + [p for p in extra if p != meta['property']]:
            t0 = time.time()
            r = subprocess.run(['./check', pid, '--no-evidence'], cwd=VERIF, stdout=subprocess.PIPE, stderr=subprocess.STDOUT, text=True)
            lines = r.stdout.splitlines()
            viol = [l.strip()[len('failed obligation: '):] for l in lines if l.strip().startswith('failed obligation:')]
            vq = [l.split()[0] for l in lines if ' violation ' in l and not l.startswith('[')]
            nat = []
            for l in lines:
                if l.startswith('VIOLATION'):
                    path = l.split('replay=')[1].strip()
                    try:
                        nat.append(json.load(open(path)).get('native_replay', {}).get('status'))
                    except Exception:
                        pass
            results[pid] = {'exit': r.returncode, 'wall_s': round(time.time() - t0), 'queries_with_counterexample': vq,
                            'failed_obligations': sorted(set(viol))[:12], 'native_replay': nat,
                            'verdict': 'DETECTED' if r.returncode == 1 else ('no verdict' if r.returncode == 2 else 'MISSED')}
            print(sid, pid, results[pid]['verdict'], 'rc=%d' % r.returncode, '%ds' % results[pid]['wall_s'], vq[:4], flush=True)
    finally:
        subprocess.run(['git', '-C', REPO, 'checkout', '--', '.'], check=True)
    meta['checks_run'] = results
    meta['checks_run_at_verif_commit'] = subprocess.run(['git', '-C', VERIF, 'rev-parse', '--short', 'HEAD'], stdout=subprocess.PIPE, text=True).stdout.strip()
    json.dump(meta, open(os.path.join(d, 'meta.json'), 'w'), indent=1)


if __name__ == '__main__':
    args = [a for a in sys.argv[1:] if not a.startswith('--')]
    extra = ()
    for a in sys.argv[1:]:
        if a.startswith('--also='):
            extra = tuple(a[7:].split(','))
    for sid in (args or sorted(os.listdir(SD))):
        run(sid, extra)
