"""C18 footprint support.

File-scope static objects of a unit cannot be named from another translation unit (goto-cc
exports file-local FUNCTIONS, not variables), so the translation pipeline appends, to the
preprocessed text of each unit (never to /repo), three accessor functions per static-lifetime
non-const object the goto symbol table lists for that unit:
    __vf_c18_snap_<id>()   copy the object to a shadow of the same type
    __vf_c18_same_<id>()   1 iff the object is bytewise equal to the shadow
    __vf_c18_havoc_<id>()  give the object an arbitrary value (data objects only)
The list is regenerated from the symbol table on every run, so a static added later is covered
without touching the harness.  Functions that own function-local statics get a reachability
probe at their entry instead (a function-local object cannot be named at file scope either).
"""
import os
import re

KEEP = {'pfn_malloc', 'pfn_free', 'jwt_ops', 'jwt_ops_available', 'jwt_gnutls_ops', 'jwt_openssl_ops', 'jwt_mbedtls_ops'}   # written only by explicit set calls


def ident(unit, name):
    return re.sub(r'\W', '_', os.path.basename(unit)[:-2] + '_' + name)


def instrument(bld, units, header_path, tag, extra=()):
    """returns (overrides: unit -> gb, listed statics)"""
    decl, snap, chk, hav = [], [], [], []
    listed = []
    overrides = {}
    for u in units:
        sts = bld.statics(u)
        if not sts:
            continue
        probes = sorted({s['local_in'] for s in sts if s['local_in']})
        app = ['\n/* ---- appended by /verif/vf/c18.py (translation pipeline, not part of the repository) ---- */']
        for st in sts:
            listed.append(st)
            if st['local_in']:
                continue
            i = ident(u, st['name'])
            n = st['name']
            app.append('static __typeof__(%s) __vf_c18_shadow_%s;' % (n, i))
            if re.search(r'\]\s*$', st['type']):
                if not re.search(r'\]\s*\[', st['type']) and not st['type'].startswith('struct '):
                    # one-dimensional array of scalars / pointers: typed element copy
                    app.append('void __vf_c18_snap_%s(void) { unsigned long k; for (k = 0; k < sizeof(%s) / sizeof(%s[0]); k++) '
                               '__vf_c18_shadow_%s[k] = %s[k]; }' % (i, n, n, i, n))
                else:
                    app.append('void __vf_c18_snap_%s(void) { const unsigned char *a = (const unsigned char *)&%s; unsigned char *b = (unsigned char *)&__vf_c18_shadow_%s; '
                               'unsigned long k; for (k = 0; k < sizeof(%s); k++) b[k] = a[k]; }' % (i, n, i, n))
            else:
                app.append('void __vf_c18_snap_%s(void) { __vf_c18_shadow_%s = %s; }' % (i, i, n))
            ty = st['type']
            if re.search(r'\]\s*$', ty) and not re.search(r'\]\s*\[', ty) and not ty.startswith('struct '):
                # one-dimensional array of scalars / pointers: typed element comparison
                app.append('int __vf_c18_same_%s(void) { unsigned long k; int same = 1; for (k = 0; k < sizeof(%s) / sizeof(%s[0]); k++) '
                           'if (%s[k] != __vf_c18_shadow_%s[k]) same = 0; return same; }' % (i, n, n, n, i))
            elif ty.startswith('struct ') and '*' not in ty or re.search(r'\]\s*$', ty):
                app.append('int __vf_c18_same_%s(void) { const unsigned char *a = (const unsigned char *)&%s, *b = (const unsigned char *)&__vf_c18_shadow_%s; '
                           'unsigned long k; int same = 1; for (k = 0; k < sizeof(%s); k++) if (a[k] != b[k]) same = 0; return same; }' % (i, n, i, n))
            else:
                # scalar or pointer (typed comparison: the byte image of a pointer is not fixed in CBMC)
                app.append('int __vf_c18_same_%s(void) { return %s == __vf_c18_shadow_%s; }' % (i, n, i))
            decl.append('void __vf_c18_snap_%s(void); int __vf_c18_same_%s(void);' % (i, i))
            snap.append('__vf_c18_snap_%s();' % i)
            chk.append('PROP(__vf_c18_same_%s(), "C18: static object %s (%s) is not written on the sign/verify path");' % (i, n, u))
            if n not in KEEP and '*' not in st['type']:
                app.append('void __vf_c18_havoc_%s(void) { __CPROVER_havoc_object(&%s); }' % (i, n))
                decl.append('void __vf_c18_havoc_%s(void);' % i)
                hav.append('__vf_c18_havoc_%s();' % i)
        overrides[u] = bld.goto_unit(u, extra=list(extra), probes=tuple(probes), suffix='c18' + tag, append='\n'.join(app) + '\n')
    with open(header_path, 'w') as f:
        f.write('/* generated on every run from the goto symbol tables of: %s */\n' % ', '.join(units))
        f.write('\n'.join(decl) + '\n')
        f.write('static void c18_havoc(void) { %s }\n' % ' '.join(hav))
        f.write('static void c18_snapshot(void) { %s }\n' % ' '.join(snap))
        f.write('static void c18_check(void) { %s }\n' % ' '.join(chk))
    return overrides, listed
