"""Validation of the translation pipeline (thorough tier prechecks).

lowering_validation(): the cleanup-lowered text of every library unit is compiled NATIVELY in a
scratch copy of the repository (each libjwt/*.c replaced by its lowered, preprocessed form) and the
repository's own test suite is run against it.  If the rewriting changed behaviour, the suite that
the upstream authors wrote says so."""
import os
import shutil
import subprocess
import tempfile

from . import build as B


def lowering_validation(bld):
    res = {'name': 'lowering validation (native build of the lowered units + repository tests)', 'status': 'error'}
    tmp = tempfile.mkdtemp(prefix='vf-lowval-')
    try:
        src = os.path.join(tmp, 'repo')
        shutil.copytree(B.REPO, src, ignore=shutil.ignore_patterns('_build', '.git'))
        n = 0
        for u in B.LIB_UNITS:
            low = os.path.join(bld.low, B.short(u) + '.c')
            if not os.path.exists(low):
                bld.lower(u)
            text = open(low).read()
            # the preprocessed text must not be preprocessed against the headers again
            open(os.path.join(src, u), 'w').write(text)
            n += 1
        bdir = os.path.join(tmp, 'b')
        r = subprocess.run(['cmake', '-S', src, '-B', bdir, '-G', 'Ninja', '-DCMAKE_BUILD_TYPE=RelWithDebInfo'],
                           stdout=subprocess.PIPE, stderr=subprocess.STDOUT, text=True)
        if r.returncode != 0:
            res['detail'] = 'cmake failed: ' + r.stdout[-800:]
            return res
        r = subprocess.run(['cmake', '--build', bdir], stdout=subprocess.PIPE, stderr=subprocess.STDOUT, text=True)
        if r.returncode != 0:
            res['detail'] = 'build of lowered units failed: ' + r.stdout[-1500:]
            return res
        r = subprocess.run(['ctest', '--test-dir', bdir, '-j8', '--timeout', '900'], stdout=subprocess.PIPE,
                           stderr=subprocess.STDOUT, text=True)
        ok = r.returncode == 0 and '100% tests passed' in r.stdout
        res['status'] = 'pass' if ok else 'fail'
        res['detail'] = r.stdout.strip().splitlines()[-3:] if r.stdout else ''
        res['units_lowered'] = n
        return res
    finally:
        shutil.rmtree(tmp, ignore_errors=True)
