"""Validation of the translation pipeline (thorough tier prechecks).

lowering_validation(): the cleanup-lowered text of every library unit is compiled NATIVELY in a
scratch copy of the repository (each libjwt/*.c replaced by its lowered, preprocessed form) and the
repository's own test suite is run against it.  If the rewriting changed behaviour, the suite that
the upstream authors wrote says so."""
import os
import shutil
import subprocess
import tempfile

from . import build as B


def lowering_validation(bld):
    res = {'name': 'lowering validation (native build of the lowered units + repository tests)', 'status': 'error'}
    tmp = tempfile.mkdtemp(prefix='vf-lowval-')
    try:
        src = os.path.join(tmp, 'repo')
        shutil.copytree(B.REPO, src, ignore=shutil.ignore_patterns('_build', '.git'))
        n = 0
        for u in B.LIB_UNITS:
            low = os.path.join(bld.low, B.short(u) + '.c')
            if not os.path.exists(low):
                bld.lower(u)
            text = open(low).read()
            # the preprocessed text must not be preprocessed against the headers again
            open(os.path.join(src, u), 'w').write(text)
            n += 1
        bdir = os.path.join(tmp, 'b')
        r = subprocess.run(['cmake', '-S', src, '-B', bdir, '-G', 'Ninja', '-DCMAKE_BUILD_TYPE=RelWithDebInfo'],
                           stdout=subprocess.PIPE, stderr=subprocess.STDOUT, text=True)
        if r.returncode != 0:
            res['detail'] = 'cmake failed: ' + r.stdout[-800:]
            return res
        r = subprocess.run(['cmake', '--build', bdir], stdout=subprocess.PIPE, stderr=subprocess.STDOUT, text=True)
        if r.returncode != 0:
            res['detail'] = 'build of lowered units failed: ' + r.stdout[-1500:]
            return res
        r = subprocess.run(['ctest', '--test-dir', bdir, '-j8', '--timeout', '900'], stdout=subprocess.PIPE,
                           stderr=subprocess.STDOUT, text=True)
        ok = r.returncode == 0 and '100% tests passed' in r.stdout
        res['status'] = 'pass' if ok else 'fail'
        res['detail'] = r.stdout.strip().splitlines()[-3:] if r.stdout else ''
        res['units_lowered'] = n
        return res
    finally:
        shutil.rmtree(tmp, ignore_errors=True)


def _two_sided(bld, title, base, models, n_macro, unwind_main, extra_defines=()):
    """replay/<base>.c run natively (the real library) -> expected observations -> CBMC on the model"""
    from . import cbmc as C
    res = {'name': title, 'status': 'error'}
    tmp = tempfile.mkdtemp(prefix='vf-conf-')
    try:
        exe = os.path.join(tmp, base)
        src = os.path.join(B.VERIF, 'replay', base + '.c')
        r = subprocess.run(['gcc', '-O0', '-g', '-fsanitize=address,undefined', '-o', exe, src, '-ljansson'],
                           stdout=subprocess.PIPE, stderr=subprocess.STDOUT, text=True)
        if r.returncode != 0:
            res['detail'] = 'native build failed: ' + r.stdout[-800:]
            return res
        r = subprocess.run([exe], stdout=subprocess.PIPE, stderr=subprocess.PIPE, text=True, timeout=60)
        if r.returncode != 0 or n_macro not in r.stdout:
            res['detail'] = 'native run failed (rc=%s): %s' % (r.returncode, (r.stderr or r.stdout)[-800:])
            return res
        with open(os.path.join(bld.gen, base + '_expected.h'), 'w') as f:
            f.write('/* observations of the real library, regenerated on every run */\n' + r.stdout)
        q = C.Query('selftest.' + base, base + '.c', [], models=models, defines=['VJ_MAXM=4', 'VF_MODEL_SIDE'] + list(extra_defines),
                    unwind=12, checks='memsafe-noconv', budget=300)
        q.includes = [bld.gen]
        q.unwindset = {'main.0': unwind_main}
        rr = C.run_query(bld, q)
        nconf = len([p for p in rr.get('props', []) if (p.get('desc') or '').startswith('conformance:')])
        res['status'] = 'pass' if rr['status'] == 'pass' and nconf >= 2 else 'fail'
        res['observations'] = r.stdout.count(',') + 1
        res['detail'] = {'cbmc_status': rr['status'], 'conformance_obligations': nconf,
                         'failed': [p['desc'] + ' @' + str((p.get('loc') or {}).get('line')) for p in (rr.get('violations') or [])][:8],
                         'inconclusive': [p['desc'] for p in (rr.get('inconclusive') or [])][:5], 'error': rr.get('error')}
        return res
    finally:
        shutil.rmtree(tmp, ignore_errors=True)


def json_model_conformance(bld):
    """M2 vs the real jansson (replay/json_conf.c)"""
    return _two_sided(bld, 'JSON model conformance (scripted scenarios: real jansson vs model M2)', 'json_conf',
                      ['alloc', 'jansson_model', 'env'], 'JSON_CONF_N', 170)


def getopt_model_conformance(bld):
    """getopt_long model vs glibc (replay/getopt_conf.c)"""
    return _two_sided(bld, 'getopt_long model conformance (documented invocation forms: glibc vs model)', 'getopt_conf',
                      ['alloc', 'jansson_model', 'env', 'getopt_model'], 'GETOPT_CONF_N', 210)
