"""dev helper: python3 -m vf.muttest FILE 'old' 'new' PROP [PROP...]  - apply a textual mutation to /repo, run checks, revert"""
import subprocess, sys
f, old, new = sys.argv[1:4]
props = sys.argv[4:]
p = '/repo/' + f
s = open(p).read()
assert s.count(old) >= 1, 'pattern not found'
open(p, 'w').write(s.replace(old, new, 1))
try:
    procs = [(pr, subprocess.Popen(['./check', pr, '--no-evidence'], cwd='/verif', stdout=subprocess.PIPE, stderr=subprocess.STDOUT, text=True)) for pr in props]
    for pr, pp in procs:
        out, _ = pp.communicate()
        lines = [l for l in out.splitlines() if l.startswith(('VIOLATION', 'PASS', 'INCONCLUSIVE', '    failed', 'BUILD', '    VACUITY'))]
        print(pr, 'rc=%d' % pp.returncode)
        for l in lines[:8]:
            print('   ', l)
finally:
    subprocess.run(['git', '-C', '/repo', 'checkout', '--', f])
