#!/usr/bin/env python3
"""Run CBMC queries (one process per query, in parallel) and classify the results.

A query = harness source + defines + real units + models -> linked goto binary -> cbmc.
Result classes per CBMC property:
  reach:*   vacuity guard, MUST be FAILURE (reachable); SUCCESS => the harness is vacuous
  bound:*   a bound of the encoding was exceeded, MUST be SUCCESS; FAILURE => inconclusive
  *unwind*  unwinding assertion, MUST be SUCCESS; FAILURE => inconclusive (bound too small)
  other     obligations of the property under check; FAILURE => counterexample
"""
import json
import os
import re
import resource
import subprocess
import time
from concurrent.futures import ThreadPoolExecutor

from . import build as B

VERIF = B.VERIF


class Query:
    def __init__(self, name, harness, units, models=('alloc', 'jansson_model', 'env', 'provider_stub'),
                 defines=(), unwind=None, unwindset=None, checks='verdict', budget=300,
                 solver='cadical', extra=(), entry=None, remove_bodies=(), tiers=('quick', 'thorough'),
                 mem_gb=6, desc='', bounds=None, expect_fail=()):
        self.name = name
        self.harness = harness
        self.units = list(units)
        self.models = list(models)
        self.defines = list(defines)
        self.unwind = unwind
        self.unwindset = dict(unwindset or {})
        self.checks = checks
        self.budget = budget
        self.solver = solver
        self.extra = list(extra)
        self.entry = entry
        self.remove_bodies = list(remove_bodies)
        self.tiers = tiers
        self.mem_gb = mem_gb
        self.desc = desc
        self.bounds = bounds or {}
        self.expect_fail = list(expect_fail)   # regexes of obligations expected to FAIL (known findings probes)
        self.unit_override = {}                # unit -> goto binary to link instead of the default build
        self.mem_expect = None                 # GB reserved in the scheduler (default: mem_gb, the kill cap)
        self.includes = []


def _limit(mem_gb):
    # No RLIMIT_AS: a solver whose malloc fails mid-run was seen to end with cProverStatus "error"
    # while still printing (garbage) FAILURE verdicts for the remaining properties.  Memory is
    # policed from outside (run_query polls the resident set size of the process group and kills
    # it), which yields a clean 'oom' = no verdict.
    def f():
        os.setsid()
    return f


def _rss_kb(pgid):
    tot = 0
    try:
        for p in os.listdir('/proc'):
            if not p.isdigit():
                continue
            try:
                with open('/proc/%s/stat' % p) as f:
                    st = f.read().rsplit(')', 1)[1].split()
                if int(st[2]) != pgid:        # process group id
                    continue
                with open('/proc/%s/status' % p) as f:
                    for line in f:
                        if line.startswith('VmRSS:'):
                            tot += int(line.split()[1])
            except (OSError, ValueError, IndexError):
                continue
    except OSError:
        pass
    return tot


def cbmc_flags(q):
    fl = ['--unwinding-assertions', '--drop-unused-functions', '--no-malloc-may-fail', '--slice-formula', '--object-bits', '10']
    if q.unwind is not None:
        fl += ['--unwind', str(q.unwind)]
    if q.unwindset:
        fl += ['--unwindset', ','.join('%s:%d' % kv for kv in sorted(q.unwindset.items()))]
    if q.checks == 'verdict':
        fl += ['--no-standard-checks']
    elif q.checks == 'memsafe':
        # CBMC 6 defaults: bounds, pointer, div-by-zero, signed overflow, undefined shift, ...
        fl += ['--pointer-overflow-check', '--conversion-check']
    elif q.checks == 'pointer':
        fl += ['--no-standard-checks', '--pointer-check', '--bounds-check']
    elif q.checks == 'memsafe-noconv':
        fl += ['--pointer-overflow-check']
    if q.solver == 'cadical':
        fl += ['--sat-solver', 'cadical']
    elif q.solver == 'kissat':
        fl += ['--external-sat-solver', 'kissat']
    elif q.solver == 'minisat':
        pass
    fl += q.extra
    return fl


def prepare_query(bld, q):
    """compile + link; returns path of the goto binary"""
    parts = []
    tag = re.sub(r'[^A-Za-z0-9_]', '_', q.name)
    for m in q.models:
        src = os.path.join(VERIF, 'models', m + '.c')
        parts.append(bld.compile_aux(src, defines=q.defines, name=tag + '-' + m, includes=q.includes))
    hsrc = os.path.join(VERIF, 'harness', q.harness)
    parts.append(bld.compile_aux(hsrc, defines=q.defines, name=tag + '-h', includes=q.includes))
    ugbs = []
    for u in q.units:
        g = q.unit_override.get(u) or bld.unit_gb(u)
        if q.remove_bodies:
            # contract stubs: drop the bodies of the named functions from the real unit so the
            # harness can supply a stub (goto-instrument --remove-function-body)
            out = g[:-3] + '.' + tag + '.gb'
            cmd = ['goto-instrument']
            for f in q.remove_bodies:
                cmd += ['--remove-function-body', f]
            r = B.sh(cmd + [g, out])
            if r.returncode != 0:
                raise B.BuildError('goto-instrument failed: ' + r.stdout[-2000:])
            g = out
        ugbs.append(g)
    return bld.link(parts + ugbs, 'q-' + tag, entry=q.entry)


def run_query(bld, q, trace=False, only_property=None):
    """Runs the query; when the ONLY thing standing between the run and a verdict is a failed
    unwinding assertion, the bound of exactly those loops is widened (doubled, at least +16) and the
    query is repeated - the bound stays checked by --unwinding-assertions, it is just found by
    search instead of being fixed by hand.  This is what keeps a change that adds or lengthens a
    loop from ending as "no verdict".  The widened bounds are reported in the result."""
    widened = {}
    t00 = time.time()
    res = None
    for attempt in range(5):
        res = _run_query_once(bld, q, trace=trace, only_property=only_property)
        if res.get('status') != 'inconclusive' or only_property:
            break
        inc = res.get('inconclusive') or []
        unw = [p for p in inc if 'unwinding assertion' in (p.get('desc') or '')]
        if not unw or len(unw) != len(inc):
            break
        changed = False
        for p_ in unw:
            m = re.match(r'(.+)\.unwind\.(\d+)$', p_.get('id') or '')
            if not m:
                continue
            loop = '%s.%s' % (m.group(1), m.group(2))
            cur = q.unwindset.get(loop, q.unwind or 1)
            new = min(max(2 * cur, cur + 16), 1200)
            if new > cur:
                q.unwindset[loop] = new
                widened[loop] = new
                changed = True
        if not changed:
            break
    if widened:
        res['unwind_widened'] = widened
        res['bounds'] = dict(res.get('bounds') or {}, **{'unwind bounds widened at run time': widened})
        res['wall_s'] = time.time() - t00
    return res


def _run_query_once(bld, q, trace=False, only_property=None):
    t0 = time.time()
    res = {'name': q.name, 'desc': q.desc, 'bounds': q.bounds, 'status': None, 'props': [], 'wall_s': 0.0,
           'cmd': '', 'solver': q.solver}
    try:
        gb = prepare_query(bld, q)
    except B.BuildError as e:
        res['status'] = 'build-error'
        res['error'] = str(e)
        return res
    cmd = ['cbmc', gb] + cbmc_flags(q) + ['--json-ui']
    if trace:
        cmd += ['--trace']
    if only_property:
        cmd += ['--property', only_property]
    res['cmd'] = ' '.join(cmd)
    tb = time.time()
    try:
        p = subprocess.Popen(['/usr/bin/time', '-f', 'VFRSS=%M'] + cmd, stdout=subprocess.PIPE, stderr=subprocess.PIPE,
                             text=True, preexec_fn=_limit(q.mem_gb))
        import threading
        killed = {}

        def watchdog():
            lim = q.mem_gb * (1 << 20)
            while p.poll() is None:
                rss = _rss_kb(p.pid)
                _LIVE[q.name] = rss
                # over its own cap, or the machine-wide budget is exceeded and this is the largest query
                over_all = sum(_LIVE.values()) > MEM_BUDGET_GB * (1 << 20) and rss >= max(_LIVE.values())
                if rss > lim or over_all:
                    killed['oom'] = True
                    try:
                        os.killpg(p.pid, 9)
                    except ProcessLookupError:
                        pass
                    return
                time.sleep(2)
        th = threading.Thread(target=watchdog, daemon=True)
        th.start()
        try:
            out, err = p.communicate(timeout=q.budget)
        except subprocess.TimeoutExpired:
            try:
                os.killpg(p.pid, 9)
            except ProcessLookupError:
                pass
            p.communicate()
            _LIVE.pop(q.name, None)
            res['status'] = 'timeout'
            res['wall_s'] = time.time() - t0
            return res
        _LIVE.pop(q.name, None)
        if killed.get('oom'):
            res['status'] = 'oom'
            res['error'] = 'resident set exceeded %d GB: killed, no verdict' % q.mem_gb
            res['wall_s'] = time.time() - t0
            return res
    except OSError as e:
        res['status'] = 'error'
        res['error'] = str(e)
        return res
    res['wall_s'] = time.time() - t0
    res['cbmc_s'] = time.time() - tb
    m = re.search(r'VFRSS=(\d+)', err or '')
    if m:
        res['peak_rss_kb'] = int(m.group(1))
    try:
        msgs = json.loads(out)
    except ValueError:
        res['status'] = 'error'
        res['error'] = 'unparsable cbmc output (rc=%s): %s | %s' % (p.returncode, out[-1500:], (err or '')[-500:])
        return res
    props = None
    status = None
    solver_s = 0.0
    errors = []
    for mobj in msgs:
        if not isinstance(mobj, dict):
            continue
        if 'result' in mobj:
            props = mobj['result']
        if 'cProverStatus' in mobj:
            status = mobj['cProverStatus']
        if mobj.get('messageType') == 'ERROR':
            errors.append(mobj.get('messageText', ''))
        if mobj.get('messageType') == 'STATUS-MESSAGE':
            mm = re.search(r'Runtime (?:decision procedure|Solver): ([0-9.]+)s', mobj.get('messageText', ''))
            if mm:
                solver_s += float(mm.group(1))
    res['solver_s'] = solver_s
    if props is None:
        res['status'] = 'error'
        res['error'] = 'no result block (rc=%s): %s' % (p.returncode, '; '.join(errors)[-1500:] or out[-800:])
        return res
    res['cprover_status'] = status
    if status == 'error':
        res['status'] = 'error'
        res['error'] = 'cbmc ended with cProverStatus error: ' + '; '.join(errors)[-800:]
        return res
    for pr in props:
        d = {'id': pr.get('property'), 'desc': pr.get('description', ''), 'status': pr.get('status'),
             'loc': pr.get('sourceLocation', {})}
        if 'trace' in pr:
            d['trace'] = pr['trace']
        res['props'].append(d)
    classify(res, q)
    return res


def classify(res, q):
    viol, vac, inconc, ok, reach_ok, kf = [], [], [], 0, 0, []
    for p in res['props']:
        desc = p['desc'] or ''
        st = p['status']
        if desc.startswith('reach-opt:'):
            if st == 'FAILURE':
                reach_ok += 1
        elif desc.startswith('reach:'):
            if st == 'FAILURE':
                reach_ok += 1
            else:
                vac.append(p)
        elif desc.startswith('bound:') or 'unwinding assertion' in desc or 'recursion unwinding' in desc \
                or desc.startswith('harness:') or desc.startswith('model:'):
            if st == 'SUCCESS':
                ok += 1
            else:
                inconc.append(p)
        elif 'no body for callee' in desc:
            if st != 'SUCCESS':
                inconc.append(p)
        else:
            if st == 'SUCCESS':
                ok += 1
            elif any(re.search(rx, desc) for rx in q.expect_fail):
                kf.append(p)
            else:
                viol.append(p)
    res['violations'] = viol
    res['vacuous'] = vac
    res['inconclusive'] = inconc
    res['known'] = kf
    res['n_ok'] = ok
    res['n_reach'] = reach_ok
    # A failed unwinding assertion or an exceeded model bound means the encoding was cut short:
    # obligations reported as failed in such a run are not trusted and the run has no verdict -
    # UNLESS CBMC reports undefined behaviour (a failed pointer/bounds check) located in a libjwt
    # source file: that is a real defect of the code under test, and it is also what makes
    # everything after it (loop bounds included) go haywire.
    ub = [p for p in viol if (p.get('loc') or {}).get('file', '').startswith(B.REPO) and
          re.match(r'(dereference failure|pointer |array |memcpy |memset |free )', p['desc'] or '')]
    res['ub_in_repo'] = ub
    # A failed unwinding assertion cuts the paths that go beyond the bound; every path CBMC did
    # explore is a genuine execution prefix, so an obligation that fails on one of them is a real
    # counterexample.  (Not so for a failed "bound:/model:/harness:" item: there the environment
    # model itself was left, and nothing downstream is trusted.)
    only_unwind = bool(inconc) and all('unwinding assertion' in (p['desc'] or '') or 'recursion unwinding' in (p['desc'] or '')
                                       for p in inconc)
    if inconc and not ub and not (only_unwind and viol):
        res['status'] = 'inconclusive'
    elif viol:
        res['status'] = 'violation'
        if ub:
            res['violations'] = ub + [p for p in viol if p not in ub]
    else:
        # Unreached witnesses do not change the verdict (on a modified tree a path may legitimately
        # have become unreachable, and the property then holds on it trivially); they are printed
        # as VACUITY-WARNING and recorded in evidence, and on the unchanged tree every witness is
        # required to be reached (checked by the self-test, DESIGN.md section 8).
        res['status'] = 'pass'


MEM_BUDGET_GB = int(os.environ.get('VF_MEM_GB', '48'))
_LIVE = {}      # query name -> current resident set (KB), maintained by the watchdogs


def run_all(bld, queries, jobs=None):
    """SAT solving is single-threaded: one process per query, up to 16 at a time, admitted under a
    global memory budget (each query reserves its mem_gb cap; it is killed when it exceeds it)."""
    import sys
    import threading
    jobs = jobs or min(16, max(1, len(queries)))
    cv = threading.Condition()
    state = {'free': MEM_BUDGET_GB}

    def one(q):
        need = min(getattr(q, 'mem_expect', None) or q.mem_gb, MEM_BUDGET_GB)
        with cv:
            while state['free'] < need:
                cv.wait()
            state['free'] -= need
        try:
            r = run_query(bld, q)
        finally:
            with cv:
                state['free'] += need
                cv.notify_all()
        sys.stderr.write('[%s] %s %s %.0fs rss=%sMB\n' % (time.strftime('%H:%M:%S'), r['name'], r['status'], r.get('wall_s', 0),
                                                     (r.get('peak_rss_kb') or 0) // 1024))
        sys.stderr.flush()
        return r
    with ThreadPoolExecutor(max_workers=jobs) as ex:
        return list(ex.map(one, queries))
