#!/usr/bin/env python3
"""Regenerate the CBMC inputs from /repo's CURRENT working tree.

configure (cmake, flags + jwt_export.h)  ->  cc -E per unit  ->  cleanup lowering  ->  goto-cc
Nothing under /repo/_build is read.  Everything lands in a scratch work directory.
"""
import hashlib
import json
import os
import re
import shlex
import shutil
import subprocess
import sys
import tempfile
from concurrent.futures import ThreadPoolExecutor

from . import lower as lowermod

REPO = os.environ.get('VF_REPO', '/repo')
VERIF = os.path.dirname(os.path.dirname(os.path.abspath(__file__)))
CACHE = os.path.join(VERIF, '.cache')

LIB_UNITS = [
    'libjwt/base64.c', 'libjwt/jwt-memory.c', 'libjwt/jwt.c', 'libjwt/jwt-setget.c',
    'libjwt/jwt-verify.c', 'libjwt/jwt-encode.c', 'libjwt/jwt-builder.c', 'libjwt/jwt-checker.c',
    'libjwt/jwt-crypto-ops.c', 'libjwt/jwks.c', 'libjwt/openssl/jwk-parse.c',
    'libjwt/openssl/sign-verify.c', 'libjwt/gnutls/sign-verify.c',
]
TOOL_UNITS = ['tools/jwt-verify.c', 'tools/jwt-generate.c', 'tools/key2jwk.c', 'tools/jwk2key.c']

# units whose names collide get a directory prefix in the short name
SHORT = {
    'libjwt/openssl/jwk-parse.c': 'ossl-jwk-parse',
    'libjwt/openssl/sign-verify.c': 'ossl-sign-verify',
    'libjwt/gnutls/sign-verify.c': 'gnutls-sign-verify',
    'tools/jwt-verify.c': 'tool-jwt-verify',
    'tools/jwt-generate.c': 'tool-jwt-generate',
    'tools/key2jwk.c': 'tool-key2jwk',
    'tools/jwk2key.c': 'tool-jwk2key',
}


def short(unit):
    return SHORT.get(unit, os.path.basename(unit)[:-2])


def sh(cmd, **kw):
    return subprocess.run(cmd, stdout=subprocess.PIPE, stderr=subprocess.STDOUT, text=True, **kw)


class BuildError(Exception):
    pass


def _hash_files(paths):
    h = hashlib.sha256()
    for p in sorted(paths):
        h.update(p.encode())
        try:
            with open(p, 'rb') as f:
                h.update(f.read())
        except OSError:
            h.update(b'<missing>')
    return h.hexdigest()[:16]


def configure():
    """cmake configure (no build) -> (jwt_export.h path, flags per unit).  Cached by the content
    hash of every file cmake reads from the repo (CMakeLists.txt, cmake/*, *.in), so the cache
    is regenerated whenever the build description changes."""
    inputs = [os.path.join(REPO, 'CMakeLists.txt')]
    for root, _, files in os.walk(os.path.join(REPO, 'cmake')):
        inputs += [os.path.join(root, f) for f in files]
    for root, _, files in os.walk(REPO):
        if '/_build' in root or '/.git' in root:
            continue
        inputs += [os.path.join(root, f) for f in files if f.endswith('.in')]
    key = _hash_files(inputs)
    cdir = os.path.join(CACHE, 'cfg-' + key)
    ok = os.path.join(cdir, 'ok.json')
    if not os.path.exists(ok):
        shutil.rmtree(cdir, ignore_errors=True)
        os.makedirs(cdir, exist_ok=True)
        tmp = tempfile.mkdtemp(prefix='vf-cfg-')
        try:
            r = sh(['cmake', '-S', REPO, '-B', tmp, '-G', 'Ninja', '-DCMAKE_BUILD_TYPE=RelWithDebInfo',
                    '-DCMAKE_EXPORT_COMPILE_COMMANDS=ON'])
            if r.returncode != 0:
                raise BuildError('cmake configure failed:\n' + r.stdout[-3000:])
            cc = json.load(open(os.path.join(tmp, 'compile_commands.json')))
            flags = {}
            for c in cc:
                f = os.path.relpath(c['file'], REPO)
                args = shlex.split(c['command'])
                if '-DJWT_STATIC_DEFINE' not in args:
                    continue
                keep = []
                i = 1
                while i < len(args):
                    a = args[i]
                    if a in ('-o', '-c'):
                        i += 2 if a == '-o' else 1
                        if a == '-c':
                            i += 1
                        continue
                    if a == '-isystem':
                        keep += [a, args[i + 1]]
                        i += 2
                        continue
                    if a.startswith('-I'):
                        p = a[2:]
                        if os.path.abspath(p) == os.path.abspath(tmp):
                            keep.append('-I@GEN@')
                        else:
                            keep.append(a)
                    elif a.startswith('-D') or a.startswith('-U') or a.startswith('-std'):
                        keep.append(a)
                    i += 1
                flags[f] = keep
            shutil.copy(os.path.join(tmp, 'jwt_export.h'), os.path.join(cdir, 'jwt_export.h'))
            json.dump({'flags': flags}, open(ok, 'w'))
        finally:
            shutil.rmtree(tmp, ignore_errors=True)
    meta = json.load(open(ok))
    return cdir, meta['flags']


class Build:
    def __init__(self, work=None, keep=False):
        self.own = work is None
        self.work = work or tempfile.mkdtemp(prefix='vf-work-')
        self.keep = keep
        os.makedirs(self.work, exist_ok=True)
        self.gen = os.path.join(self.work, 'gen')
        self.pp = os.path.join(self.work, 'pp')
        self.low = os.path.join(self.work, 'low')
        self.gb = os.path.join(self.work, 'gb')
        for d in (self.gen, self.pp, self.low, self.gb):
            os.makedirs(d, exist_ok=True)
        self.lower_report = {}
        self.flags = {}
        self._done = set()

    def cleanup(self):
        if self.own and not self.keep:
            shutil.rmtree(self.work, ignore_errors=True)

    # ------------------------------------------------------------------
    def prepare(self):
        cdir, flags = configure()
        self.flags = flags
        shutil.copy(os.path.join(cdir, 'jwt_export.h'), os.path.join(self.gen, 'jwt_export.h'))
        for which in ('BUILDER', 'CHECKER'):
            out = os.path.join(self.gen, 'jwt-%s.i' % which.lower())
            r = sh(['cc', '-E', os.path.join(REPO, 'libjwt/jwt-common.c'), '-DJWT_' + which, '-o', out])
            if r.returncode != 0:
                raise BuildError('generating %s failed:\n%s' % (out, r.stdout))

    def unit_flags(self, unit):
        fl = self.flags.get(unit)
        if fl is None:
            # unit unknown to cmake (should not happen): use jwt.c's flags
            fl = self.flags.get('libjwt/jwt.c', [])
        return [f.replace('@GEN@', self.gen) for f in fl] + ['-DNDEBUG']

    def preprocess(self, unit, extra=()):
        out = os.path.join(self.pp, short(unit) + '.i')
        r = sh(['gcc', '-E'] + self.unit_flags(unit) + list(extra) + [os.path.join(REPO, unit), '-o', out])
        if r.returncode != 0:
            raise BuildError('preprocessing %s failed:\n%s' % (unit, r.stdout[-3000:]))
        return out

    def lower(self, unit, extra=(), probes=(), suffix='', append=''):
        pp = self.preprocess(unit, extra)
        rep = []
        text = open(pp).read()
        if unit in TOOL_UNITS:
            # tool main()s end in exit(); their cleanup variables only release memory at process
            # end and have no bearing on the exit status / option handling that C20 is about.
            # CBMC ignores the attribute, which is exactly "not released": no lowering.
            d = self.low if not suffix else os.path.join(self.low, suffix)
            os.makedirs(d, exist_ok=True)
            lp = os.path.join(d, short(unit) + '.c')
            open(lp, 'w').write(text + append)
            self.lower_report[unit] = [{'function': '(tool unit: cleanup attribute left in place, ignored by CBMC)'}]
            return lp
        try:
            out = lowermod.lower(text, rep, probes=probes)
        except lowermod.LowerError as e:
            raise BuildError('cleanup lowering of %s failed closed: %s' % (unit, e))
        if 'cleanup' in re.sub(r'"(?:\\.|[^"\\])*"', '', out) and re.search(r'__attribute__\s*\(\(\s*_*cleanup', out):
            # a cleanup attribute survived outside any function body we understand
            left = [m.start() for m in re.finditer(r'__attribute__\s*\(\(\s*_*cleanup', out)]
            # allowed only inside macro-free typedef-less headers: none expected after lowering
            raise BuildError('cleanup attribute survived lowering in %s at offsets %s' % (unit, left[:3]))
        # file name = unit short name so that --export-file-local-symbols mangles predictably
        out += append
        d = self.low if not suffix else os.path.join(self.low, suffix)
        os.makedirs(d, exist_ok=True)
        lp = os.path.join(d, short(unit) + '.c')
        open(lp, 'w').write(out)
        self.lower_report[unit] = rep
        return lp

    def goto_unit(self, unit, extra=(), probes=(), suffix='', append=''):
        lp = self.lower(unit, extra, probes=probes, suffix=suffix, append=append)
        out = os.path.join(self.gb, short(unit) + (('.' + suffix) if suffix else '') + '.gb')
        r = sh(['goto-cc', '-c', '--export-file-local-symbols', lp, '-o', out])
        if r.returncode != 0:
            raise BuildError('goto-cc %s failed:\n%s' % (unit, r.stdout[-3000:]))
        return out

    def build_units(self, units):
        todo = [u for u in units if u not in self._done]
        with ThreadPoolExecutor(max_workers=16) as ex:
            res = list(ex.map(self.goto_unit, todo))
        self._done.update(todo)
        return res

    def statics(self, unit):
        """static-lifetime, non-const objects DEFINED in a libjwt unit, from the goto symbol table:
        list of dicts {name, type, local_in (function or None), file_local}"""
        r = sh(['goto-instrument', '--show-symbol-table', self.unit_gb(unit)])
        out = []
        cur = {}
        for line in r.stdout.splitlines():
            if line.startswith('Symbol......:'):
                cur = {'name': line.split(':', 1)[1].strip()}
            elif line.startswith('Type........:'):
                cur['type'] = line.split(':', 1)[1].strip()
            elif line.startswith('Flags.......:'):
                cur['flags'] = line.split(':', 1)[1].split()
            elif line.startswith('Location....:'):
                loc = line.split(':', 1)[1].strip()
                cur['loc'] = loc
                fl = cur.get('flags', [])
                if 'static_lifetime' in fl and 'extern' not in fl and REPO in loc and '$' not in cur['name']:
                    ty = cur.get('type', '')
                    if ty.startswith('const ') or ' const' in ty.split('[')[0]:
                        continue
                    m = re.search(r' function (\S+)', loc)
                    out.append({'name': cur['name'], 'type': ty, 'local_in': m.group(1) if (m and '::' in cur['name']) else None,
                                'file_local': 'file_local' in fl, 'unit': unit})
        return out

    def unit_gb(self, unit):
        return os.path.join(self.gb, short(unit) + '.gb')

    def mangled(self, unit, name):
        """name of a file-local (static) symbol of a unit as exported by goto-cc"""
        base = short(unit) + '.c'
        return '__CPROVER_file_local_' + re.sub(r'[^A-Za-z0-9_]', '_', base) + '_' + name

    # ------------------------------------------------------------------
    def compile_aux(self, src, defines=(), includes=(), name=None, real_headers=True):
        """goto-cc a harness or model source (not lowered; written for CBMC)"""
        name = name or os.path.basename(src)[:-2]
        out = os.path.join(self.gb, 'aux-' + name + '.gb')
        fl = [f.replace('@GEN@', self.gen) for f in self.flags.get('libjwt/jwt.c', [])] if real_headers else []
        cmd = ['goto-cc', '-c', src, '-o', out] + fl + ['-DNDEBUG', '-I' + os.path.join(VERIF, 'models'),
                                                      '-I' + os.path.join(VERIF, 'harness')]
        cmd += ['-D' + d for d in defines] + ['-I' + i for i in includes]
        r = sh(cmd)
        if r.returncode != 0:
            raise BuildError('goto-cc %s failed:\n%s' % (src, r.stdout[-4000:]))
        return out

    def link(self, parts, out_name, entry=None):
        out = os.path.join(self.gb, out_name + '.gb')
        cmd = ['goto-cc'] + parts + ['-o', out]
        if entry:
            cmd += ['--function', entry]
        r = sh(cmd)
        if r.returncode != 0:
            raise BuildError('goto-cc link %s failed:\n%s' % (out_name, r.stdout[-4000:]))
        return out


if __name__ == '__main__':
    b = Build(work=sys.argv[1] if len(sys.argv) > 1 else None, keep=True)
    b.prepare()
    b.build_units(LIB_UNITS + TOOL_UNITS)
    print(b.work)
    for u, r in b.lower_report.items():
        if r:
            print(u, r)
