#!/usr/bin/env python3
"""Regenerate /verif/MANIFEST.json from vf/props.py (python3 -m vf.manifest)."""
import json
import os

from . import props as P
from .build import VERIF

ALL = ['C%02d' % i for i in range(1, 21)]


def main():
    checks = []
    na = []
    for pid in ALL:
        spec = P.PROPS.get(pid)
        if spec is None:
            na.append({'property_id': pid, 'reason': P.NOT_CLAIMED.get(pid, 'check not built yet in this session (work in progress, see DESIGN.md section 11)')})
            continue
        checks.append({
            'property_id': pid,
            'quick_cmd': './check %s --tier quick' % pid,
            'thorough_cmd': './check %s --tier thorough' % pid,
            'evidence_file': 'evidence/%s.json' % pid,
            'replay_cmd_template': './check %s --replay {path}' % pid,
            'engine': 'cbmc',
            'level_claimed': {'category': spec.level, 'text': spec.level_text, 'design_ref': spec.design_ref},
            'level_note': spec.level_note,
            'technique': spec.technique,
        })
    man = {
        'version': 1,
        'setup_cmd': 'python3 -m vf.setup',
        'hooks': {
            'guard': 'LIBJWT_VERIF',
            'enable': 'no source hooks are needed: statics are reached with goto-cc --export-file-local-symbols, the '
                      'allocator through the public jwt_set_alloc, the clock by linking a time() model, the provider '
                      'through the jwt_ops table',
            'baseline_off_cmd': 'cmake -S /repo -B /repo/_build -G Ninja >/dev/null && cmake --build /repo/_build >/dev/null && '
                                'ctest --test-dir /repo/_build -j8 --timeout 900',
            'source_commits': [],
            'add_only': True,
        },
        'engines': [{'name': 'cbmc', 'path': '/usr/local/bin/cbmc', 'serves_properties': [c['property_id'] for c in checks],
                     'kind_free_text': 'bounded model checker for C (CBMC 6.11.0, SAT back end CaDiCaL/kissat) run on the '
                                       'real libjwt translation units compiled with goto-cc; environment models in /verif/models'}],
        'checks': checks,
        'not_applicable': na,
        'notes': 'Every check regenerates its encoding from /repo\'s working tree on each run (cmake configure, cc -E, '
                 'cleanup lowering, goto-cc). Exit 0 = held within the stated bounds; exit 1 + VIOLATION line = solver '
                 'counterexample; exit 2 = no verdict (timeout, bound exceeded, build error) - never reported as success.',
    }
    json.dump(man, open(os.path.join(VERIF, 'MANIFEST.json'), 'w'), indent=1)
    print('MANIFEST.json: %d checks, %d not_applicable' % (len(checks), len(na)))


if __name__ == '__main__':
    main()
