/* C20 - tools/key2jwk.c: ONE call of the real parse_one_file() from an ARBITRARY state of the tool's
 * own static data (counters, option flags and whatever a later change adds - enumerated from the
 * goto symbol table on every run, vf/c18.py): the JWK emitted for a file is made from THAT file.
 * A file that parses as a PEM key goes to the converter of its key type with the key object just
 * read; a file that does not is converted as a raw secret from exactly the bytes just read.  One
 * step from an arbitrary state covers invocations with any number of files in any order.
 * The per-type converters are contract stubs here (process_ec_key is decided by C20.key2jwk.ec.*);
 * stdio and the PEM readers are stubs. */
#include <string.h>
#include <stdio.h>
#include <stdlib.h>
#include <openssl/evp.h>
#include <openssl/pem.h>
#include "vf.h"
#include "c20_k2j_gen.h"

json_t *vf_parse(unsigned call_no, const char *buf, size_t len, size_t flags) { return NULL; }
void vf_dump_hook(unsigned call_no, const json_t *tree, size_t flags, const char *text) { }
const char *__progname = "key2jwk";

json_t *__CPROVER_file_local_key2jwk_c_parse_one_file(const char *file);

/* ---- converters (bodies removed from the unit): record what they are handed ---- */
static int conv;                      /* 1 rsa, 2 ec, 3 eddsa, 4 raw secret */
static EVP_PKEY *conv_pkey;
static int conv_priv;
static const unsigned char *conv_key;
static size_t conv_len;
static unsigned char conv_bytes[4];
void __CPROVER_file_local_key2jwk_c_process_rsa_key(EVP_PKEY *pkey, int priv, json_t *jwk) { conv = 1; conv_pkey = pkey; conv_priv = priv; }
void __CPROVER_file_local_key2jwk_c_process_ec_key(EVP_PKEY *pkey, int priv, json_t *jwk) { conv = 2; conv_pkey = pkey; conv_priv = priv; }
void __CPROVER_file_local_key2jwk_c_process_eddsa_key(EVP_PKEY *pkey, int priv, json_t *jwk) { conv = 3; conv_pkey = pkey; conv_priv = priv; }
void __CPROVER_file_local_key2jwk_c_process_hmac_key(json_t *jwk, const unsigned char *key, size_t len)
{
	unsigned i;
	conv = 4;
	conv_key = key;
	conv_len = len;
	for (i = 0; i < 4; i++)
		conv_bytes[i] = (key && i < len) ? key[i] : 0;
}
const char *__CPROVER_file_local_key2jwk_c_uuidv4(void) { return "u"; }

/* ---- the file: parses as a public PEM, as a private PEM, or not at all; size and bytes arbitrary ---- */
static int the_file, the_key;
static int pub_ok, priv_ok, base_id;
static long file_size;
static unsigned char file_bytes[4];
static int exited;

FILE *fopen(const char *path, const char *mode) { return (FILE *)&the_file; }
int fclose(FILE *fp) { return 0; }
void rewind(FILE *fp) { }
int fseek(FILE *fp, long off, int whence) { return 0; }
long ftell(FILE *fp) { return file_size; }
size_t fread(void *ptr, size_t size, size_t n, FILE *fp)
{
	unsigned i;
	__CPROVER_assert(__CPROVER_w_ok(ptr, size * n), "fread: the destination holds size*n bytes (buffer overflow otherwise)");
	__CPROVER_assume(__CPROVER_w_ok(ptr, size * n));
	for (i = 0; i < 4; i++)
		if (i < size * n)
			((unsigned char *)ptr)[i] = file_bytes[i];
	return n;
}
EVP_PKEY *PEM_read_PUBKEY(FILE *fp, EVP_PKEY **x, pem_password_cb *cb, void *u) { return pub_ok ? (EVP_PKEY *)&the_key : NULL; }
EVP_PKEY *PEM_read_PrivateKey(FILE *fp, EVP_PKEY **x, pem_password_cb *cb, void *u) { return priv_ok ? (EVP_PKEY *)&the_key : NULL; }
int EVP_PKEY_get_base_id(const EVP_PKEY *pkey) { return base_id; }
void EVP_PKEY_free(EVP_PKEY *pkey) { }
void ERR_print_errors_fp(FILE *fp) { }
void exit(int status) { exited = 1; __CPROVER_assume(0); }

int main(void)
{
	json_t *jwk;
	unsigned i;

	vf_install_alloc();
	c18_havoc();                                      /* arbitrary leftovers of earlier files / options */
	pub_ok = nondet_bool();
	priv_ok = nondet_bool();
	base_id = nondet_int();
	file_size = nondet_long();
	__CPROVER_assume(file_size >= 0 && file_size <= 3 * (long)BUFSIZ);
	for (i = 0; i < 4; i++)
		file_bytes[i] = nondet_uchar();

	jwk = __CPROVER_file_local_key2jwk_c_parse_one_file("f");

	PROP(jwk != NULL, "C20: a JWK object is made for the file");
	if (pub_ok || priv_ok) {
		int known = base_id == EVP_PKEY_RSA || base_id == EVP_PKEY_RSA_PSS || base_id == EVP_PKEY_EC ||
			    base_id == EVP_PKEY_ED25519 || base_id == EVP_PKEY_ED448;
		PROP(conv != 4, "C20: a file that parses as a PEM key is never emitted as an oct key (whatever earlier files were)");
		if (known) {
			PROP(conv == ((base_id == EVP_PKEY_RSA || base_id == EVP_PKEY_RSA_PSS) ? 1 : base_id == EVP_PKEY_EC ? 2 : 3),
			     "C20: the key goes to the converter of its own type");
			PROP(conv_pkey == (EVP_PKEY *)&the_key && conv_priv == !pub_ok, "C20: converted from the key object just read, private exactly when it is not a public PEM");
		}
	} else {
		PROP(conv == 4 && conv_len == (size_t)file_size, "C20: a file that is no PEM key is converted as a raw secret of the file's length");
		PROP(conv_bytes[0] == file_bytes[0] && conv_bytes[1] == file_bytes[1] && conv_bytes[2] == file_bytes[2] && conv_bytes[3] == file_bytes[3],
		     "C20: the raw secret is the bytes just read from this file");
		PROP(file_size >= 32 && file_size <= BUFSIZ, "C20: raw secrets outside 32..BUFSIZ bytes are refused (the tool exits)");
	}
	REACH(conv == 4, "raw secret converted");
	REACH(conv == 2 && conv_priv, "private EC key converted");
	REACH(conv == 1 && !conv_priv && base_id == EVP_PKEY_RSA_PSS, "public RSA-PSS key converted");
	return 0;
}
