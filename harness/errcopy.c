/* C06 / C17 (error hand-back) - the tail of jwt_checker_verify and jwt_builder_generate copies the
 * per-call object's error message into the checker / builder (jwt_copy_error: strcpy).  Every
 * writer of a message uses the size of the buffer it writes to (jwt_write_error: snprintf with
 * sizeof), so the per-call message is ANY string that fits ITS buffer.  Here the functions that
 * fill it (jwt_parse and jwt_verify_complete; jwt_head_setup and jwt_encode_str) are replaced by
 * contract stubs that leave exactly that - an arbitrary NUL-terminated text filling up to the whole
 * of jwt->error_msg - and the real FUNC(verify) / FUNC(generate) run around them with CBMC's
 * pointer checks on: the hand-back must stay inside the destination for every such message. */
#include <string.h>
#include <stdlib.h>
#include "vf.h"

json_t *vf_parse(unsigned call_no, const char *buf, size_t len, size_t flags) { return NULL; }
void vf_dump_hook(unsigned call_no, const json_t *tree, size_t flags, const char *text) { }

static unsigned filled;

static char last_msg[1024];          /* the per-call message as the last stub left it */
static int last_failed;

static void any_message(jwt_t *jwt, int failing)
{
	size_t i;
	__CPROVER_assert(sizeof(jwt->error_msg) <= sizeof(last_msg), "harness: message buffer larger than the harness copy");
	__CPROVER_havoc_slice(jwt->error_msg, sizeof(jwt->error_msg));
	jwt->error_msg[sizeof(jwt->error_msg) - 1] = '\0';
	jwt->error = nondet_int();
	if (failing) {
		/* contract of a failing step: the flag is set and a message was written (jwt_write_error) */
		__CPROVER_assume(jwt->error_msg[0] != '\0');
		jwt->error = 1;
	}
	for (i = 0; i < sizeof(jwt->error_msg); i++)
		last_msg[i] = jwt->error_msg[i];
	last_failed = failing;
	filled++;
}

/* C14: what the caller reads back after a failure is the per-call message, whole */
static int handed_back(const char *dst, size_t n)
{
	size_t i;
	int same = 1, open_ = 1;
	for (i = 0; i < n; i++) {
		if (open_ && dst[i] != last_msg[i])
			same = 0;
		if (last_msg[i] == '\0')
			open_ = 0;
	}
	return same && !open_;
}

static int terminated(const char *m, size_t n)
{
	size_t i;
	int t = 0;
	for (i = 0; i < n; i++)
		if (m[i] == '\0')
			t = 1;
	return t;
}

#ifdef SIDE_CHECKER
int jwt_parse(jwt_t *jwt, const char *token, unsigned int *len)
{
	int failing = nondet_bool();
	any_message(jwt, failing);
	*len = 0;
	return failing;
}

jwt_t *jwt_verify_complete(jwt_t *jwt, const jwt_config_t *config, const char *token, unsigned int payload_len)
{
	int failing = nondet_bool();
	any_message(jwt, failing);
	if (!failing) {
		jwt->error = 0;
		jwt->error_msg[0] = '\0';
		last_msg[0] = '\0';
	}
	return jwt;
}

int main(void)
{
	jwt_checker_t *chk;
	int r;

	vf_cls = VF_CLS_CHECKER | VF_CLS_JWT;
	vf_install_alloc();
	chk = jwt_checker_new();
	__CPROVER_assume(chk != NULL);
	r = jwt_checker_verify(chk, "a.b.c");
	PROP(terminated(chk->error_msg, sizeof(chk->error_msg)), "C06: the checker's message stays a string inside its buffer");
	if (last_failed) {
		PROP(r != 0 && jwt_checker_error(chk) != 0, "C14: a failed step makes verify return non-zero with the flag set");
		PROP(chk->error_msg[0] != '\0', "C14: after a failure the checker's message is non-empty, whatever the length of the per-call message");
		REACHF(handed_back(chk->error_msg, sizeof(chk->error_msg)), "the per-call message arrives whole");
	}
	REACH(filled == 1 && r != 0, "message handed back after a failed parse");
	REACH(r != 0 && last_msg[sizeof(chk->error_msg) - 2] != '\0', "message that fills the buffer handed back");
	REACH(filled == 2, "message handed back after the completion step");
	jwt_checker_free(chk);
	return 0;
}
#else
int jwt_head_setup(jwt_t *jwt)
{
	int failing = nondet_bool();
	any_message(jwt, failing);
	return failing;
}

char *jwt_encode_str(jwt_t *jwt)
{
	any_message(jwt, 1);
	return NULL;
}

int main(void)
{
	jwt_builder_t *b;
	char *out;

	vf_cls = VF_CLS_BUILDER | VF_CLS_JWT;
	vf_install_alloc();
	b = jwt_builder_new();
	__CPROVER_assume(b != NULL);
	out = jwt_builder_generate(b);
	PROP(terminated(b->error_msg, sizeof(b->error_msg)), "C06: the builder's message stays a string inside its buffer");
	if (last_failed) {
		PROP(out == NULL && jwt_builder_error(b) != 0, "C14: a failed step makes generate return NULL with the flag set");
		PROP(b->error_msg[0] != '\0', "C14: after a failure the builder's message is non-empty, whatever the length of the per-call message");
		REACHF(handed_back(b->error_msg, sizeof(b->error_msg)), "the per-call message arrives whole");
	}
	REACH(filled == 1, "message handed back after a failed header set-up");
	REACH(filled == 2, "message handed back after encoding");
	(void)out;
	jwt_builder_free(b);
	return 0;
}
#endif
