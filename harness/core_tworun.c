/* Two-run core harness: the same token, configuration, clock, parse results and oracle answers
 * are presented to jwt_checker_verify twice and the verdicts are compared.
 *
 *   -DPROP_C13  run 1 starts from an ARBITRARY error/error_msg pre-state (standing for any
 *               history of earlier calls, by the frame obligation below), run 2 from a cleared
 *               one: verdicts equal; the configuration is unchanged by either run (frame).
 *   -DPROP_C19  run 1 with a callback that edits the token object it is handed (up to CB_OPS
 *               header/claim set/replace/delete/delete-all operations) and returns 0 without
 *               touching key/alg; run 2 with a callback that only looks: verdicts equal.
 *
 * Parse results are deep copies of trees built once (so both runs parse "the same document");
 * the oracle draws its choices from a tape that is rewound between the runs (-DPV_TAPE).
 */
#include <string.h>
#include "vf.h"
#include "ref.h"
#include "provider_stub.h"

#ifndef L
#define L 12
#endif

static char tok[L + 1];
static jwk_item_t key, key2;
static unsigned char octkey[4];

static json_t *hdr0, *pay0;        /* what "the parser" yields for segment 1 / 2 (NULL = not JSON) */
static unsigned parse_in_run;

static const char *const hdr_alpha[] = { "alg", "typ", "x" };
static const char *const pay_alpha[] = { "exp", "nbf", "iss", "x" };

json_t *vf_parse(unsigned call_no, const char *buf, size_t len, size_t flags)
{
	json_t *src = (parse_in_run == 0) ? hdr0 : pay0;
	__CPROVER_assert(parse_in_run < 2, "harness: at most two parser calls per verify");
	parse_in_run++;
	return src ? json_deep_copy(src) : NULL;
}

void vf_dump_hook(unsigned call_no, const json_t *tree, size_t flags, const char *text) { }

static json_t *havoc_doc(const char *const *alpha, unsigned n)
{
	unsigned shape = nondet_uint();
	__CPROVER_assume(shape < 3);
	if (shape == 1)
		return vj_havoc_array(1, 0);
	if (shape == 2)
		return vj_havoc_object(alpha, n, 0);
	return NULL;
}

/* ---------------------------------------------------------------- callback */
static int cb_ret, cb_setkey, cb_setalg, cb_mutates;
static const jwk_item_t *cb_key;
static jwt_alg_t cb_alg;

#ifndef CB_OPS
#define CB_OPS 2
#endif
struct cb_op {
	unsigned kind;        /* 0 claim set, 1 claim del, 2 claim del-all, 3 header set, 4 header del, 5 header del-all */
	unsigned name;        /* index into the name table */
	unsigned type;        /* JWT_VALUE_INT / STR / BOOL */
	int replace;
	long ival;
	char sval[3];
};
static struct cb_op cb_prog[CB_OPS];
static const char *const cb_names[] = { "exp", "nbf", "iss", "alg", "x" };

static void cb_apply(jwt_t *jwt, const struct cb_op *op)
{
	jwt_value_t jv;
	const char *name = cb_names[op->name];

	memset(&jv, 0, sizeof(jv));
	jv.name = name;
	jv.replace = op->replace;
	if (op->type == JWT_VALUE_INT) {
		jv.type = JWT_VALUE_INT;
		jv.int_val = op->ival;
	} else if (op->type == JWT_VALUE_STR) {
		jv.type = JWT_VALUE_STR;
		jv.str_val = op->sval;
	} else {
		jv.type = JWT_VALUE_BOOL;
		jv.bool_val = (int)(op->ival & 1);
	}
	switch (op->kind) {
	case 0: jwt_claim_set(jwt, &jv); break;
	case 1: jwt_claim_del(jwt, name); break;
	case 2: jwt_claim_del(jwt, NULL); break;
	case 3: jwt_header_set(jwt, &jv); break;
	case 4: jwt_header_del(jwt, name); break;
	default: jwt_header_del(jwt, NULL); break;
	}
}

static int the_cb(jwt_t *jwt, jwt_config_t *config)
{
	unsigned i;
	if (cb_setkey)
		config->key = cb_key;
	if (cb_setalg)
		config->alg = cb_alg;
	if (cb_mutates)
		for (i = 0; i < CB_OPS; i++)
			cb_apply(jwt, &cb_prog[i]);
	return cb_ret;
}

static void havoc_key(jwk_item_t *k)
{
	unsigned a = nondet_uint(), t = nondet_uint();

	memset(k, 0, sizeof(*k));
	__CPROVER_assume(a <= JWT_ALG_INVAL);
	__CPROVER_assume(t >= JWK_KEY_TYPE_EC && t <= JWK_KEY_TYPE_OCT);
	k->alg = (jwt_alg_t)a;
	k->kty = (jwk_key_type_t)t;
	k->is_private_key = nondet_bool();
	k->bits = nondet_size_t();
	if (k->kty == JWK_KEY_TYPE_OCT) {
		size_t n = nondet_size_t();
		__CPROVER_assume(n <= (((size_t)-1) >> 3));
		k->provider = JWT_CRYPTO_OPS_ANY;
		k->oct.key = octkey;
		k->oct.len = n;
		k->bits = n * 8;
	} else {
		k->provider = JWT_CRYPTO_OPS_OPENSSL;
		k->provider_data = nondet_ptr();
	}
}

struct cfg_snap {
	jwt_alg_t alg;
	const jwk_item_t *key;
	json_t *payload, *headers;
	jwt_claims_t claims;
	jwt_callback_t cb;
	void *cb_ctx;
	time_t exp, nbf;
};

static void snap_cfg(struct cfg_snap *s, const jwt_checker_t *c)
{
	s->alg = c->c.alg;
	s->key = c->c.key;
	s->payload = c->c.payload;
	s->headers = c->c.headers;
	s->claims = c->c.claims;
	s->cb = c->c.cb;
	s->cb_ctx = c->c.cb_ctx;
	s->exp = c->c.exp;
	s->nbf = c->c.nbf;
}

static int same_cfg(const struct cfg_snap *s, const jwt_checker_t *c)
{
	return s->alg == c->c.alg && s->key == c->c.key && s->payload == c->c.payload &&
	       s->headers == c->c.headers && s->claims == c->c.claims && s->cb == c->c.cb &&
	       s->cb_ctx == c->c.cb_ctx && s->exp == c->c.exp && s->nbf == c->c.nbf;
}

int main(void)
{
	jwt_checker_t *chk;
	unsigned i;
	int v1, v2, have_key, have_cb;
	jwt_alg_t cfg_alg;
	struct cfg_snap before;
	json_t *pay_copy;
	int calls1;

	vf_cls = VF_CLS_CHECKER;
	vf_install_alloc();
	chk = jwt_checker_new();
	__CPROVER_assume(chk != NULL);
	vf_cls = VF_CLS_JWT;

	for (i = 0; i < L; i++)
		tok[i] = nondet_char();
	tok[L] = '\0';
	havoc_key(&key);
	havoc_key(&key2);
	hdr0 = havoc_doc(hdr_alpha, 3);
	pay0 = havoc_doc(pay_alpha, 4);
	for (i = 0; i < PV_TAPE_N; i++)
		pv_tape[i] = nondet_int();

	have_key = nondet_bool();
	{
		unsigned a = nondet_uint();
		__CPROVER_assume(a <= JWT_ALG_INVAL);
		cfg_alg = (jwt_alg_t)a;
	}
	if (jwt_checker_setkey(chk, cfg_alg, have_key ? &key : NULL))
		jwt_checker_error_clear(chk);
	/* a claim expectation and leeways, so that claim checks can pass or fail */
	if (nondet_bool()) {
		char iss[3];
		iss[0] = nondet_char();
		iss[1] = nondet_char();
		iss[2] = '\0';
		__CPROVER_assume(iss[0] >= 0 && iss[1] >= 0);
		jwt_checker_claim_set(chk, JWT_CLAIM_ISS, iss);
	}
	{
		long lw = nondet_long();
		__CPROVER_assume(lw >= -1 && lw <= (1L << 40));
		jwt_checker_time_leeway(chk, nondet_bool() ? JWT_CLAIM_EXP : JWT_CLAIM_NBF, lw);
	}

	have_cb = nondet_bool();
	cb_ret = nondet_int();
	cb_setkey = nondet_bool();
	cb_setalg = nondet_bool();
	cb_key = nondet_bool() ? &key2 : NULL;
	{
		unsigned a = nondet_uint();
		__CPROVER_assume(a <= JWT_ALG_INVAL);
		cb_alg = (jwt_alg_t)a;
	}
#ifdef PROP_C19
	/* C19's premise: the callback returns 0 and leaves key and algorithm untouched */
	have_cb = 1;
	cb_ret = 0;
	cb_setkey = cb_setalg = 0;
	for (i = 0; i < CB_OPS; i++) {
		struct cb_op *op = &cb_prog[i];
		op->kind = nondet_uint();
		op->name = nondet_uint();
		op->type = nondet_uint();
		op->replace = nondet_bool();
		op->ival = nondet_long();
		op->sval[0] = nondet_char();
		op->sval[1] = nondet_char();
		op->sval[2] = '\0';
		__CPROVER_assume(op->kind < 6 && op->name < 5);
		__CPROVER_assume(op->type >= JWT_VALUE_INT && op->type <= JWT_VALUE_BOOL);
		__CPROVER_assume(op->sval[0] >= 0 && op->sval[1] >= 0);
	}
#endif
	if (have_cb)
		__CPROVER_assume(jwt_checker_setcb(chk, the_cb, NULL) == 0);
	vf_now = nondet_long();
	__CPROVER_assume(vf_now >= 0 && vf_now <= (1L << 62));

	pay_copy = json_deep_copy(chk->c.payload);
	snap_cfg(&before, chk);

	/* ------------------------------------------------ run 1 */
#ifdef PROP_C13
	chk->error = nondet_int();
	for (i = 0; i < 3; i++)
		chk->error_msg[i] = nondet_char();
	chk->error_msg[3] = '\0';
#endif
#ifdef PROP_C19
	cb_mutates = 1;
#endif
	parse_in_run = 0;
	pv_tape_i = 0;
	v1 = jwt_checker_verify(chk, tok);
	calls1 = pv_verify_calls + pv_hmac_calls + pv_pem_calls;

#ifdef PROP_C13
	PROP(same_cfg(&before, chk), "C13: verify leaves key, alg, claim policy, leeways and callback unchanged");
	PROP(vj_equal_copy(pay_copy, chk->c.payload), "C13: verify leaves the checker's expected-claims object unchanged");
#endif

	/* ------------------------------------------------ run 2 */
	jwt_checker_error_clear(chk);
	cb_mutates = 0;
	parse_in_run = 0;
	pv_tape_i = 0;
	v2 = jwt_checker_verify(chk, tok);

#ifdef PROP_C13
	PROP((v1 != 0) == (v2 != 0), "C13: verdict on a reused checker equals the verdict on a clean one");
	PROP(same_cfg(&before, chk), "C13: configuration unchanged after the second run");
	REACH(v1 == 0 && v2 == 0, "both runs accept");
	REACH(v1 != 0 && v2 != 0 && calls1 == 1, "both runs reject after consulting the oracle");
	REACH(v1 != 0 && v2 != 0 && have_cb && cb_ret != 0, "both runs reject in the callback");
#endif
#ifdef PROP_C19
#ifdef KF_CB_CLAIMS
	/* known finding: excluded region = callback programs that touch the claims */
	for (i = 0; i < CB_OPS; i++)
		__CPROVER_assume(cb_prog[i].kind >= 3);
#endif
#ifdef KFPROBE_CB_CLAIMS
	__CPROVER_assume(cb_prog[0].kind == 1 && cb_prog[0].name == 0);
#endif
	PROP((v1 != 0) == (v2 != 0), "C19: a callback that edits the token object does not change the verdict");
	REACH(v1 == 0 && v2 == 0, "accepted with and without the editing callback");
	REACH(v1 != 0 && v2 != 0 && calls1 == 0 && hdr0 && pay0, "rejected by a claim check with and without the editing callback");
	REACH(v1 != 0 && cb_prog[0].kind == 1 && cb_prog[0].name == 0, "rejected although the callback deleted exp");
#endif
	return 0;
}
