/* C11 - base64url codec: jwt_base64uri_encode / jwt_base64uri_decode (+ base64_encode/decode)
 * against the bitwise RFC 4648 §5 reference in ref.h, under the exact (end-aligned) allocator so
 * that every read or write outside a buffer is a CBMC bounds violation.
 *   -DSIDE_ENCODE : all byte strings of length 1..N
 *   -DSIDE_DECODE : all NUL-free texts of length 0..M (all byte values)
 */
#include <string.h>
#include "vf.h"
#include "ref.h"

json_t *vf_parse(unsigned call_no, const char *buf, size_t len, size_t flags) { return NULL; }
void vf_dump_hook(unsigned call_no, const json_t *tree, size_t flags, const char *text) { }

#ifndef N
#define N 12
#endif
#define ENCMAX (((N + 2) / 3) * 4)
#ifndef M
#define M 16
#endif
#define DECMAX ((M / 4) * 3 + 3)

int main(void)
{
	vf_install_alloc();

#ifdef SIDE_ENCODE
	{
		unsigned char in[N];
		char ref[ENCMAX + 1];
		char *dst = NULL;
		unsigned n = nondet_uint(), i, rn;
		int r, same = 1, alpha = 1;

		__CPROVER_assume(n >= 1 && n <= N);
		for (i = 0; i < N; i++)
			in[i] = nondet_uchar();
		r = jwt_base64uri_encode(&dst, (const char *)in, (int)n);
		PROP(r >= 0 && dst != NULL, "C11: encoding a non-empty byte string succeeds");
		rn = ref_b64url_encode(in, n, N, ref);
		/* the return value is only used by callers as "> 0" and as an allocation bound; the
		 * observable is the text, whose length must be ceil(4n/3) (no '=' padding) */
		PROP(rn == (4 * n + 2) / 3 && (unsigned)r >= rn, "C11: encoded length is ceil(4n/3), unpadded");
		for (i = 0; i < ENCMAX; i++) {
			if (i < rn) {
				char c = dst[i];
				if (c != ref[i])
					same = 0;
				if (!((c >= 'A' && c <= 'Z') || (c >= 'a' && c <= 'z') || (c >= '0' && c <= '9') || c == '-' || c == '_'))
					alpha = 0;
			}
		}
		PROP(same, "C11: encoder output equals the RFC 4648 section 5 reference");
		PROP(alpha, "C11: encoder output is over [A-Za-z0-9_-] only");
		PROP(dst[rn] == '\0', "C11: encoder output is NUL-terminated at its length");
		/* round trip through the real decoder */
		{
			int dl = -1;
			unsigned char *back = jwt_base64uri_decode(dst, &dl);
			int eq = 1;
			PROP(back != NULL && dl == (int)n, "C11: decode(encode(x)) has the length of x");
			for (i = 0; i < N; i++)
				if (back && i < n && back[i] != in[i])
					eq = 0;
			PROP(eq, "C11: decode(encode(x)) == x");
			if (back)
				back[dl] = '\0';      /* the terminator slot jwt_base64uri_decode_to_json writes */
		}
		REACH(n == 1 && in[0] == 0xfb, "1-byte tail with a 0x3e sextet");
		REACH(n == 2, "2-byte tail");
		REACH(n == N, "longest input");
	}
#endif

#ifdef SIDE_DECODE
	{
		char txt[M + 1];
		unsigned char ref[DECMAX];
		unsigned m = nondet_uint(), i;
		int dl = -12345, rn, same = 1;
		unsigned char *out;

		__CPROVER_assume(m <= M);
		for (i = 0; i < M; i++) {
			txt[i] = nondet_char();
			if (i < m)
				__CPROVER_assume(txt[i] != '\0');
		}
		txt[m] = '\0';
		out = jwt_base64uri_decode(txt, &dl);
		rn = ref_b64url_decode(txt, M, ref, DECMAX);
		if (rn < 0) {
			PROP(out == NULL, "C11: text with a foreign byte ahead of padding, of length 1 mod 4, or decoding to nothing is rejected");
		} else {
			PROP(out != NULL && dl == rn, "C11: accepted text decodes to the reference length");
			for (i = 0; i < DECMAX; i++)
				if (out && (int)i < rn && out[i] != ref[i])
					same = 0;
			PROP(same, "C11: accepted text decodes to the reference bytes");
			if (out)
				out[dl] = '\0';       /* terminator slot */
		}
		REACH(out != NULL && m == M, "longest text accepted");
		REACH(out == NULL && (m & 3) == 1, "length 1 mod 4 rejected");
		REACH(out != NULL && m >= 2 && txt[m - 1] == '=', "padded text accepted");
		REACH(out == NULL && (m & 3) == 0 && m > 0 && txt[1] == '.', "foreign byte rejected");
		REACH(out != NULL && txt[0] == '_' && txt[1] == '-', "URL alphabet accepted");
		REACH(out != NULL && txt[0] == '/' && txt[1] == '+', "standard alphabet accepted");
	}
#endif
	return 0;
}
