/* Import layer: libjwt/openssl/jwk-parse.c (openssl_process_rsa / _ec / _eddsa with set_one_bn,
 * set_one_octet, set_one_string, set_ec_pub_key, ec_crv_to_ossl_name, pctx_to_pem) executed for
 * real over M2 + M4, entered directly with a JWK object in which EVERY relevant member is
 * independently absent or of ANY JSON type (strings: arbitrary bytes).
 *
 *   -DPROP_C07  discharges the contract the keyring harness assumed for the process_* entries
 *               (error => message; success => provider key object; nothing else touched), memory
 *               safety, every M4 precondition, and object/allocation balance.
 *   -DPROP_C08  fidelity: the (parameter name, bytes) pairs handed to OpenSSL are exactly the
 *               RFC 7518 members of that key type, each the reference base64url decoding of its
 *               member; metadata (private/public, curve) as the JWK states.
 */
#include <string.h>
#include <openssl/core_names.h>
#include "vf.h"
#include "ref.h"
#include "openssl_stubs.h"
#include "openssl_stubs_jwk.h"

json_t *vf_parse(unsigned call_no, const char *buf, size_t len, size_t flags) { return NULL; }
void vf_dump_hook(unsigned call_no, const json_t *tree, size_t flags, const char *text) { }

int openssl_process_eddsa(json_t *jwk, jwk_item_t *item);
int openssl_process_rsa(json_t *jwk, jwk_item_t *item);
int openssl_process_ec(json_t *jwk, jwk_item_t *item);

static jwk_item_t item, before;

/* C12: the provider that happens to be active while a key is loaded (both providers share these
 * OpenSSL-based parsers) is a symbolic choice; the imported item must not depend on it */
#ifdef PROP_C12
static struct jwt_crypto_ops ops_openssl = { .name = "openssl", .provider = JWT_CRYPTO_OPS_OPENSSL };
static struct jwt_crypto_ops ops_gnutls = { .name = "gnutls", .provider = JWT_CRYPTO_OPS_GNUTLS };
#define ACTIVE_PROVIDER_SETUP() do { jwt_ops = nondet_bool() ? &ops_openssl : &ops_gnutls; } while (0)
#define C12_POST() do {                                                                          \
	if (!item.error)                                                                         \
		PROP(item.provider == JWT_CRYPTO_OPS_OPENSSL && item.provider_data == vo_made_pkey && (item.pem != NULL || vo_oracle_failed), \
		     "C12: a key loaded under either provider carries the OpenSSL key object, its OpenSSL tag and a PEM - usable under both"); \
	REACH(!item.error && jwt_ops == &ops_gnutls, "key imported while GnuTLS is the active provider");  \
	REACH(!item.error && jwt_ops == &ops_openssl, "key imported while OpenSSL is the active provider"); \
} while (0)
#else
#define ACTIVE_PROVIDER_SETUP() ((void)0)
#define C12_POST() ((void)0)
#endif
static vj_t *jwk;

struct dec { int is_str; int ok; unsigned char b[VJ_SLEN]; unsigned n; unsigned bn_off, bn_len; };

/* reference reading of one member: string? base64url-decodable? bytes; and the same bytes as a
 * minimal big-endian integer (leading zero bytes dropped) */
static void ref_member(const char *name, struct dec *d)
{
	const json_t *m = json_object_get(&jwk->j, name);
	int r;
	unsigned i, st = 0;

	d->is_str = m && m->type == JSON_STRING;
	d->ok = 0;
	d->n = d->bn_off = d->bn_len = 0;
	if (!d->is_str)
		return;
	r = ref_b64url_decode(VJ(m)->s, VJ_SLEN, d->b, VJ_SLEN);
	if (r <= 0)
		return;
	d->ok = 1;
	d->n = (unsigned)r;
	for (i = 0; i < VJ_SLEN; i++)
		if (i < d->n && !st) { if (d->b[i] == 0) d->bn_off++; else st = 1; }
	d->bn_len = d->n - d->bn_off;
}

static int push_is(unsigned k, const char *name, int kind, const unsigned char *bytes, unsigned len)
{
	unsigned i;
	if (k >= vo_npush || vo_pushes[k].kind != kind || strcmp(vo_pushes[k].name, name) != 0 || vo_pushes[k].len != len)
		return 0;
	for (i = 0; i < VO_PBYTES; i++)
		if (i < len && vo_pushes[k].bytes[i] != bytes[i])
			return 0;
	return 1;
}

static int present(const char *name) { return json_object_get(&jwk->j, name) != NULL; }

static void common_post(int ret)
{
#ifdef PROP_C07
	if (item.error)
		PROP(item.error_msg[0] != '\0', "C07/C14: an import error carries a non-empty message");
	/* jwk_process_one ignores the return value: the verdict of an import is item->error */
	if (!item.error)
		PROP(item.provider == JWT_CRYPTO_OPS_OPENSSL && item.provider_data != NULL && item.provider_data == vo_made_pkey,
		     "C07: a successful import leaves a usable provider key object on the item");
	else
		PROP(item.provider_data == NULL && item.pem == NULL, "C07: a failed import leaves no key object on the item");
	PROP(item.kty == before.kty && item.use == before.use && item.key_ops == before.key_ops && item.alg == before.alg &&
	     item.kid == before.kid && item.json == before.json && item.node.next == before.node.next,
	     "C07: the provider parser touches nothing but key material, size, curve, private flag and error");
	PROP(vo_jwk_live == 0 && vo_live == 0, "C07: every OpenSSL object the parser created is released");
	PROP(vf_live == 0, "C07: every buffer the parser allocated is released");
#endif
#ifdef PROP_C08
	if (!item.error) {
		PROP(item.bits == vo_bits_reported, "C08: the size in bits is the one the provider reports for the imported key");
		PROP(item.pem == NULL || (item.pem == vo_made_pem && vo_pem_written), "C08: the PEM is the one written from the imported key");
		if (item.pem)
			PROP(vo_pem_priv == (item.is_private_key != 0), "C08: a private PEM for private keys, a public one otherwise");
	}
#endif
}

#ifdef KTY_RSA
static const char *const alpha[] = { "alg", "n", "e", "d", "p", "q", "dp", "dq", "qi" };
#define NALPHA 9
int main(void)
{
	int ret;
	static const char *const priv_json[] = { "d", "p", "q", "dp", "dq", "qi" };
	static const char *const priv_ossl[] = { OSSL_PKEY_PARAM_RSA_D, OSSL_PKEY_PARAM_RSA_FACTOR1, OSSL_PKEY_PARAM_RSA_FACTOR2,
						 OSSL_PKEY_PARAM_RSA_EXPONENT1, OSSL_PKEY_PARAM_RSA_EXPONENT2, OSSL_PKEY_PARAM_RSA_COEFFICIENT1 };
	struct dec dn, de, dp[6];
	unsigned k, npriv = 0, allstr = 1;
	const json_t *jalg;

	vf_install_alloc();
	ACTIVE_PROVIDER_SETUP();
	jwk = VJ(vj_havoc_object(alpha, NALPHA, 0));
	memset(&item, 0, sizeof(item));
	item.kty = JWK_KEY_TYPE_RSA;
	item.json = &jwk->j;
	before = item;
#ifdef KF_RSA_ALG_TYPE
	/* known finding excluded: alg present but not a string */
	__CPROVER_assume(!present("alg") || json_object_get(&jwk->j, "alg")->type == JSON_STRING);
#endif
	ret = openssl_process_rsa(&jwk->j, &item);

	ref_member("n", &dn);
	ref_member("e", &de);
	for (k = 0; k < 6; k++) {
		ref_member(priv_json[k], &dp[k]);
		if (present(priv_json[k]))
			npriv++;
		if (!dp[k].ok)
			allstr = 0;
	}
	jalg = json_object_get(&jwk->j, "alg");
	common_post(ret);
	C12_POST();
	ret = item.error ? -1 : 0;      /* from here on: the import verdict */
#ifdef PROP_C07
	if (!present("n") || !present("e") || !dn.ok || !de.ok || (npriv != 0 && npriv != 6) || (npriv == 6 && !allstr))
		PROP(ret != 0, "C07: an RSA JWK with a missing, mistyped or undecodable component is refused");
	REACH(ret == 0 && npriv == 6, "private RSA key imported");
	REACH(ret == 0 && npriv == 0, "public RSA key imported");
	REACH(ret != 0 && vo_fromdata_calls == 1, "OpenSSL refused the key material");
	REACH(ret != 0 && present("n") && !dn.is_str, "non-string n refused");
#endif
#ifdef PROP_C08
	if (ret == 0) {
		int pss = jalg && jalg->type == JSON_STRING && VJ(jalg)->s[0] == 'P';
		PROP(strcmp(vo_ctx_name, pss ? "RSA-PSS" : "RSA") == 0, "C08: RSA-PSS key object exactly for PS* keys, plain RSA otherwise");
		PROP(item.is_private_key == (npriv == 6), "C08: private exactly when all CRT members are present");
		PROP(vo_npush == (npriv == 6 ? 8u : 2u), "C08: exactly the RFC 7518 RSA members reach the provider");
		PROP(push_is(0, OSSL_PKEY_PARAM_RSA_N, 1, dn.b + dn.bn_off, dn.bn_len), "C08: modulus = decoding of n");
		PROP(push_is(1, OSSL_PKEY_PARAM_RSA_E, 1, de.b + de.bn_off, de.bn_len), "C08: public exponent = decoding of e");
		if (npriv == 6)
			for (k = 0; k < 6; k++)
				PROP(push_is(2 + k, priv_ossl[k], 1, dp[k].b + dp[k].bn_off, dp[k].bn_len),
				     "C08: each private component = decoding of its member (d, p, q, dp, dq, qi)");
	}
	if (present("n") && present("e") && dn.ok && de.ok && (npriv == 0 || (npriv == 6 && allstr)) &&
	    (!jalg || jalg->type == JSON_STRING) && !vo_oracle_failed && !vf_faulted)
		PROP(ret == 0, "C08/C20: an RSA JWK whose members are all well-formed base64url integers (minimal or zero-padded) imports without error whenever OpenSSL accepts the material");
	REACH(ret == 0 && npriv == 6 && dp[1].bn_off == 1, "private key with a zero-padded p");
	REACH(ret == 0 && jalg && VJ(jalg)->s[0] == 'P', "PS* key imported");
#endif
	return 0;
}
#endif

#ifdef KTY_EC
static const char *const alpha[] = { "crv", "x", "y", "d" };
#define NALPHA 4
int main(void)
{
	int ret;
	struct dec dx, dy, dd;
	const json_t *jcrv;

	vf_install_alloc();
	ACTIVE_PROVIDER_SETUP();
	jwk = VJ(vj_havoc_object(alpha, NALPHA, 0));
	memset(&item, 0, sizeof(item));
	item.kty = JWK_KEY_TYPE_EC;
	item.json = &jwk->j;
	before = item;
	ret = openssl_process_ec(&jwk->j, &item);

	ref_member("x", &dx);
	ref_member("y", &dy);
	ref_member("d", &dd);
	jcrv = json_object_get(&jwk->j, "crv");
	common_post(ret);
	C12_POST();
	ret = item.error ? -1 : 0;      /* from here on: the import verdict */
#ifdef PROP_C07
	if (!jcrv || jcrv->type != JSON_STRING || !dx.ok || !dy.ok || (present("d") && !dd.ok))
		PROP(ret != 0, "C07: an EC JWK with a missing, mistyped or undecodable component is refused");
	REACH(ret == 0 && present("d"), "private EC key imported");
	REACH(ret == 0 && !present("d"), "public EC key imported");
	REACH(ret != 0 && present("d") && !dd.is_str && dx.ok && dy.ok, "non-string d refused");
#endif
#ifdef PROP_C08
	if (ret == 0) {
		const char *crv = VJ(jcrv)->s;
		const char *want = ref_streq(crv, "P-256") ? "prime256v1" : ref_streq(crv, "P-384") ? "secp384r1" :
				   ref_streq(crv, "P-521") ? "secp521r1" : crv;
		unsigned i, same = 1;
		PROP(strcmp(vo_ctx_name, "EC") == 0, "C08: an EC key object is built");
		PROP(strcmp(item.curve, crv) == 0, "C08: the curve is reported as the JWK states it");
		PROP(item.is_private_key == present("d"), "C08: private exactly when d is present");
		PROP(vo_npush == (present("d") ? 3u : 2u), "C08: exactly group, public point and (for private keys) d reach the provider");
		PROP(vo_pushes[0].kind == 3 && strcmp(vo_pushes[0].name, OSSL_PKEY_PARAM_GROUP_NAME) == 0 &&
		     vo_pushes[0].len == strlen(want) && strcmp(vo_group_name, want) == 0, "C08: group = the OpenSSL name of crv (P-256/384/521 mapped)");
		for (i = 0; i < VO_PBYTES; i++)
			if ((i < vo_pushes[0].len) && vo_pushes[0].bytes[i] != (unsigned char)want[i])
				same = 0;
		PROP(same, "C08: group name text");
		PROP(vo_pushes[1].kind == 2 && strcmp(vo_pushes[1].name, OSSL_PKEY_PARAM_PUB_KEY) == 0, "C08: the public point is pushed as the public key");
		same = vo_point_xlen == dx.bn_len && vo_point_ylen == dy.bn_len;
		for (i = 0; i < VO_PBYTES; i++) {
			if (i < dx.bn_len && vo_point_x[i] != dx.b[dx.bn_off + i])
				same = 0;
			if (i < dy.bn_len && vo_point_y[i] != dy.b[dy.bn_off + i])
				same = 0;
		}
		PROP(same, "C08: the public point has coordinates (decoding of x, decoding of y)");
		if (present("d"))
			PROP(push_is(2, OSSL_PKEY_PARAM_PRIV_KEY, 1, dd.b + dd.bn_off, dd.bn_len), "C08: private scalar = decoding of d");
	}
	if (jcrv && jcrv->type == JSON_STRING && dx.ok && dy.ok && (!present("d") || dd.ok) && !vo_oracle_failed && !vf_faulted)
		PROP(ret == 0, "C08/C20: an EC JWK whose x, y (and d) are well-formed base64url integers - leading zero octets included, as fixed-width encoding requires - imports without error whenever OpenSSL accepts the material");
	REACH(ret == 0 && present("d") && dd.bn_off > 0, "private scalar with a leading zero octet imported");
	REACH(ret == 0 && ref_streq(VJ(jcrv)->s, "P-384"), "P-384 mapped");
	REACH(ret == 0 && dx.bn_off > 0, "x with a leading zero byte");
#endif
	return 0;
}
#endif

#ifdef KTY_OKP
static const char *const alpha[] = { "crv", "x", "d" };
#define NALPHA 3
int main(void)
{
	int ret;
	struct dec dx, dd;
	const json_t *jcrv;

	vf_install_alloc();
	ACTIVE_PROVIDER_SETUP();
	jwk = VJ(vj_havoc_object(alpha, NALPHA, 0));
	memset(&item, 0, sizeof(item));
	item.kty = JWK_KEY_TYPE_OKP;
	item.json = &jwk->j;
	before = item;
	ret = openssl_process_eddsa(&jwk->j, &item);

	ref_member("x", &dx);
	ref_member("d", &dd);
	jcrv = json_object_get(&jwk->j, "crv");
	common_post(ret);
	C12_POST();
	ret = item.error ? -1 : 0;      /* from here on: the import verdict */
#ifdef PROP_C07
	if (!jcrv || jcrv->type != JSON_STRING || !(ref_streq(VJ(jcrv)->s, "Ed25519") || ref_streq(VJ(jcrv)->s, "Ed448")) ||
	    (present("d") ? !dd.ok : !dx.ok))
		PROP(ret != 0, "C07: an OKP JWK with a missing, mistyped or undecodable component is refused");
	REACH(ret == 0 && present("d"), "private OKP key imported");
	REACH(ret == 0 && !present("d"), "public OKP key imported");
	REACH(ret != 0 && present("x") && !dx.is_str && !present("d") && jcrv && jcrv->type == JSON_STRING && ref_streq(VJ(jcrv)->s, "Ed448"), "non-string x refused");
#endif
#ifdef PROP_C08
	if (ret == 0) {
		const char *crv = VJ(jcrv)->s;
		PROP(strcmp(vo_ctx_name, ref_streq(crv, "Ed448") ? "ED448" : "ED25519") == 0, "C08: the key object is of the curve the JWK names");
		PROP(strcmp(item.curve, crv) == 0, "C08: the curve is reported as the JWK states it");
		PROP(item.is_private_key == present("d"), "C08: private exactly when d is present");
		PROP(vo_npush == 1, "C08: exactly one key member reaches the provider");
		if (present("d"))
			PROP(push_is(0, OSSL_PKEY_PARAM_PRIV_KEY, 2, dd.b, dd.n), "C08: private key octets = decoding of d");
		else
			PROP(push_is(0, OSSL_PKEY_PARAM_PUB_KEY, 2, dx.b, dx.n), "C08: public key octets = decoding of x");
	}
	if (jcrv && jcrv->type == JSON_STRING && (ref_streq(VJ(jcrv)->s, "Ed25519") || ref_streq(VJ(jcrv)->s, "Ed448")) &&
	    (present("d") ? dd.ok : dx.ok) && !vo_oracle_failed && !vf_faulted)
		PROP(ret == 0, "C08/C20: an OKP JWK with a known curve and a well-formed key member imports without error whenever OpenSSL accepts the material");
	REACH(ret == 0 && ref_streq(VJ(jcrv)->s, "Ed448") && !present("d"), "public Ed448 key");
#endif
	return 0;
}
#endif
