/* Keyring harness: libjwt/jwks.c + the real intrusive list macros of ll.h.
 *
 *   -DSIDE_LIST (C16): an arbitrary well-formed keyring of 0..NITEMS items (built with the real
 *       list_add_tail, arbitrary error flags, kids incl. duplicates and NULL), then ONE arbitrary
 *       list operation compared with a reference sequence; exact allocator, memory-safety checks
 *       and live-allocation counters (nothing freed twice, nothing leaked).
 *   -DSIDE_LOAD (C07 shape, C16 load): jwks_create / jwks_load / jwks_load_strn / _fromfile /
 *       _fromfp on a fresh or an existing keyring with the parser havocked: not JSON, any
 *       top-level type, "keys" absent or an array of 0..2 elements of any type, every JWK member
 *       absent or of any JSON type.  The three provider process_* entries are contract stubs
 *       (M3); they are discharged for real by the import harness (jwk_import.c).
 */
#include <string.h>
#include <stdio.h>
#include "vf.h"
#include "ref.h"
#include "provider_stub.h"

void vf_dump_hook(unsigned call_no, const json_t *tree, size_t flags, const char *text) { }

#ifndef NITEMS
#define NITEMS 3
#endif

/* exported by goto-cc --export-file-local-symbols */
int __CPROVER_file_local_jwks_c_jwks_item_add(jwk_set_t *jwk_set, jwk_item_t *item);
#define real_jwks_item_add __CPROVER_file_local_jwks_c_jwks_item_add

/* ================================================================== parser havoc (SIDE_LOAD) */
/* members the load path itself looks at; use / key_ops (and again alg, kid) are varied in the
 * dedicated jwk_process_values query (-DSIDE_VALUES) */
#ifdef JWK_SMALL      /* fault-injection scenarios: a smaller JWK (no alg member) keeps each of the many queries cheap */
static const char *const jwk_alpha[] = { "keys", "kty", "k", "kid" };
#define JWK_NALPHA 4
enum { S_KEYS = 0, S_KTY, S_K, S_KID };
#else
static const char *const jwk_alpha[] = { "keys", "kty", "k", "alg", "kid" };
#define JWK_NALPHA 5
enum { S_KEYS = 0, S_KTY, S_K, S_ALG, S_KID };
#endif

static json_t *doc;          /* what the parser returned (NULL = not JSON) */
static json_t *doc_copy;     /* snapshot for the oracle                    */
static unsigned parse_calls;
static size_t parse_flags;
#ifdef STRN_SYMBOLIC
/* -DSTRN_SYMBOLIC: the counted-length entry points get an exactly sized buffer of symbolic length
 * 0..STRN_MAX holding arbitrary bytes (NUL included): every byte the library reads must lie inside
 * it, and the parser must be handed exactly those bytes */
#define STRN_MAX 3
static size_t parse_len;
static char parse_bytes[STRN_MAX];
#endif

static vj_t *havoc_jwk(int allow_keys)
{
	vj_t *o = vj_new(JSON_OBJECT);
	unsigned k;

	__CPROVER_assume(o != NULL);
	for (k = 0; k < JWK_NALPHA; k++) {
		strcpy(o->key[k], jwk_alpha[k]);
		if (k == S_KEYS && !allow_keys)
			continue;
#ifdef OCT_ONLY
		/* the symmetric-key path alone: kty is the text "oct", everything else stays arbitrary */
		if (k == S_KTY) {
			json_t *t = json_string("oct");
			__CPROVER_assume(t != NULL);
			vj_attach_member(o, k, VJ(t));
			continue;
		}
#endif
		if (k != S_KEYS && nondet_bool()) {
			vj_attach_member(o, k, VJ(vj_havoc_scalar_or_empty()));   /* any JSON type */
		}
	}
	return o;
}

/* The SHAPE of the document is concrete per query (a symbolic list STRUCTURE makes the release
 * path explode in CBMC); everything else about it is symbolic:
 *   0 not JSON                      1 any top-level type that is not an object
 *   2 a single JWK-shaped object    3 object whose "keys" member is of any non-array type
 *   4/5/6 object whose "keys" member is an array of 0/1/2 elements, each of any type
 *   7     as 6, but both elements are non-objects (cheap: exercises count and document order)     */
#ifndef SHAPE
#define SHAPE 2
#endif
#if SHAPE == 7
#define NELEM 2
#elif SHAPE >= 4
#define NELEM (SHAPE - 4)
#else
#define NELEM 0
#endif
json_t *vf_parse(unsigned call_no, const char *buf, size_t len, size_t flags)
{
	vj_t *top;

	parse_calls++;
	parse_flags = flags;
#ifdef STRN_SYMBOLIC
	{
		/* what reaches the parser: length and (reading them checks they are readable) the bytes */
		unsigned i;
		parse_len = len;
		for (i = 0; i < STRN_MAX; i++)
			parse_bytes[i] = (buf && i < len) ? buf[i] : 0;
	}
#endif
#if SHAPE == 0
	return doc = NULL;
#elif SHAPE == 1
	doc = vj_havoc_scalar_or_empty();
	__CPROVER_assume(doc->type != JSON_OBJECT);
	return json_incref(doc);                               /* +1 reference kept for the oracle */
#else
	top = havoc_jwk(1);
#if SHAPE == 3
	{
		vj_t *kv = VJ(vj_havoc_scalar_or_empty());
		__CPROVER_assume(kv->j.type != JSON_ARRAY);
		vj_attach_member(top, S_KEYS, kv);
	}
#elif SHAPE >= 4
	{
		vj_t *a = vj_new(JSON_ARRAY);
		unsigned i;
		__CPROVER_assume(a != NULL);
		for (i = 0; i < NELEM; i++) {
#if SHAPE == 7
			vj_t *e = VJ(vj_havoc_scalar_or_empty());
			__CPROVER_assume(e->j.type != JSON_OBJECT);
			vj_attach_member(a, i, e);
#else
			vj_attach_member(a, i, nondet_bool() ? havoc_jwk(0) : VJ(vj_havoc_scalar_or_empty()));
#endif
		}
		a->n = NELEM;
		vj_attach_member(top, S_KEYS, a);
	}
#endif
	return doc = json_incref(&top->j);                     /* +1 reference kept for the oracle */
#endif
}

/* ================================================================== helpers */
static long base_live, base_vj;

static jwk_item_t *mk_item(void)
{
	jwk_item_t *it;
	unsigned kidsel = nondet_uint();

	vf_cls = VF_CLS_ITEM;
	it = jwt_malloc(sizeof(*it));
	vf_cls = 0;
	__CPROVER_assume(it != NULL);
	memset(it, 0, sizeof(*it));
	it->error = nondet_bool();
	if (it->error) {
		it->error_msg[0] = 'e';
		it->error_msg[1] = '\0';
	}
	__CPROVER_assume(kidsel < 4);
	if (kidsel) {                         /* kid: NULL, "a", "b", "ab" - duplicates possible */
		it->kid = jwt_malloc(3);
		__CPROVER_assume(it->kid != NULL);
		it->kid[0] = kidsel == 2 ? 'b' : 'a';
		it->kid[1] = kidsel == 3 ? 'b' : '\0';
		it->kid[2] = '\0';
	}
	if (nondet_bool()) {                  /* oct item owning key bytes */
		it->kty = JWK_KEY_TYPE_OCT;
		it->provider = JWT_CRYPTO_OPS_ANY;
		it->oct.key = jwt_malloc(4);
		__CPROVER_assume(it->oct.key != NULL);
		it->oct.len = 4;
	} else if (nondet_bool()) {           /* provider-owned item */
		it->kty = JWK_KEY_TYPE_RSA;
		it->provider = JWT_CRYPTO_OPS_OPENSSL;
		it->provider_data = &base_live;   /* any non-NULL handle; the stub's free does not touch it */
	}
	it->json = json_object();
	__CPROVER_assume(it->json != NULL);
	return it;
}

#ifdef SIDE_LIST
#if !defined(ONLY_OP) || ONLY_OP == 0
#define REACH_L0(c, m) REACH(c, m)
#else
#define REACH_L0(c, m) ((void)0)
#endif
#if !defined(ONLY_OP) || ONLY_OP == 1
#define REACH_L1(c, m) REACH(c, m)
#else
#define REACH_L1(c, m) ((void)0)
#endif
#if !defined(ONLY_OP) || ONLY_OP == 2
#define REACH_L2(c, m) REACH(c, m)
#else
#define REACH_L2(c, m) ((void)0)
#endif
#if !defined(ONLY_OP) || ONLY_OP == 3
#define REACH_L3(c, m) REACH(c, m)
#else
#define REACH_L3(c, m) ((void)0)
#endif
#if !defined(ONLY_OP) || ONLY_OP == 4
#define REACH_L4(c, m) REACH(c, m)
#else
#define REACH_L4(c, m) ((void)0)
#endif
#if !defined(ONLY_OP) || ONLY_OP == 5
#define REACH_L5(c, m) REACH(c, m)
#else
#define REACH_L5(c, m) ((void)0)
#endif
#if !defined(ONLY_OP) || ONLY_OP == 6
#define REACH_L6(c, m) REACH(c, m)
#else
#define REACH_L6(c, m) ((void)0)
#endif
#if !defined(ONLY_OP) || ONLY_OP == 7
#define REACH_L7(c, m) REACH(c, m)
#else
#define REACH_L7(c, m) ((void)0)
#endif
int main(void)
{
	jwk_set_t *set;
	jwk_item_t *ref[NITEMS + 1];
	int ref_err[NITEMS + 1];
	char ref_kid[NITEMS + 1][3];
	int ref_haskid[NITEMS + 1];
	const unsigned n = NITEMS;
	unsigned i, j, op = nondet_uint();
	long owned[NITEMS + 1];
	unsigned m;                           /* expected length afterwards */
	jwk_item_t *exp[NITEMS + 1];
	long live_before, vj_before;

	vf_install_alloc();
	base_live = vf_live;
	base_vj = vj_live;
	vf_cls = VF_CLS_SET;
	set = jwks_create(NULL);
	vf_cls = 0;
	__CPROVER_assume(set != NULL);
	PROP(jwks_item_count(set) == 0 && !jwks_error(set), "C16: a new keyring is empty and error-free");
	set->error = nondet_bool();

	for (i = 0; i < NITEMS; i++) {
		{
			long l0 = vf_live;
			ref[i] = mk_item();
			owned[i] = vf_live - l0;
			ref_err[i] = ref[i]->error;
			ref_haskid[i] = ref[i]->kid != NULL;
			ref_kid[i][0] = ref_haskid[i] ? ref[i]->kid[0] : 0;
			ref_kid[i][1] = ref_haskid[i] ? ref[i]->kid[1] : 0;
			ref_kid[i][2] = 0;
			real_jwks_item_add(set, ref[i]);          /* the real list_add_tail */
		}
	}

	live_before = vf_live;
	vj_before = vj_live;
	__CPROVER_assume(op < 8);
#ifdef ONLY_OP
	__CPROVER_assume(op == ONLY_OP);
#endif
	m = n;
	for (i = 0; i < NITEMS; i++)
		exp[i] = i < n ? ref[i] : NULL;

	switch (op) {
	case 0: {       /* jwks_item_get */
		size_t idx = nondet_size_t();
		const jwk_item_t *g = jwks_item_get(set, idx);
		PROP(g == (idx < n ? ref[idx] : NULL), "C16: item_get(i) is the i-th item in load order, NULL out of range");
		#if NITEMS >= 1
		REACH_L0(idx == NITEMS - 1 && g, "last item fetched");
#endif
		break;
	}
	case 1:
		PROP(jwks_item_count(set) == n, "C16: item_count is the number of items");
		break;
	case 2: {       /* jwks_find_bykid */
		char q[3];
		jwk_item_t *g, *want = NULL;
		q[0] = nondet_char(); q[1] = nondet_char(); q[2] = '\0';
		g = jwks_find_bykid(set, q);
		for (i = 0; i < NITEMS; i++)
			if (i < n && !want && ref_haskid[i] && strcmp(ref_kid[i], q) == 0)
				want = ref[i];
		PROP(g == want, "C16: find_bykid returns the first item whose kid equals the argument exactly");
		#if NITEMS >= 2
		REACH_L2(g && g == ref[1], "second item found by kid");
#endif
		#if NITEMS >= 1
		REACH_L2(!g && ref_haskid[0] && q[0] == 'a' && q[1] == 'c', "near-miss kid not found");
#endif
		break;
	}
	case 3: {       /* jwks_item_free(i) */
		size_t idx = nondet_size_t();
		int r = jwks_item_free(set, idx);
		PROP(r == (idx < n ? 1 : 0), "C16: item_free reports 1 for a valid index and 0 out of range");
		if (idx < n) {
			m = 0;
			for (i = 0; i < NITEMS; i++)
				if (i < n && i != idx)
					exp[m++] = ref[i];
		}
		#if NITEMS >= 3
		REACH_L3(r == 1 && idx == 1, "middle item removed");
#endif
		REACH_L3(r == 0, "out-of-range index");
		break;
	}
	case 4: {       /* jwks_item_free_bad */
		int r = jwks_item_free_bad(set), bad = 0;
		m = 0;
		for (i = 0; i < NITEMS; i++) {
			if (i < n) {
				if (ref_err[i])
					bad++;
				else
					exp[m++] = ref[i];
			}
		}
		PROP(r == bad, "C16: item_free_bad returns the number of errored items");
		#if NITEMS >= 3
		REACH_L4(r == 2 && !ref_err[1], "two bad items around a good one removed");
#endif
		break;
	}
	case 5: {       /* jwks_error_any */
		int bad = 0;
		for (i = 0; i < NITEMS; i++)
			if (i < n && ref_err[i])
				bad++;
		PROP(jwks_error_any(set) == (set->error ? 1 : 0) + bad, "C16: error_any counts the set error plus the errored items");
		break;
	}
	case 6: {       /* jwks_item_free_all */
		int r = jwks_item_free_all(set);
		PROP(r == (int)n, "C16: item_free_all returns the number of items removed");
		m = 0;
		break;
	}
	default:        /* jwks_free */
		jwks_free(set);
		PROP(vf_live == base_live && vj_live == base_vj, "C16: jwks_free releases the keyring, every item and everything they own");
		REACH_L7(1, "keyring freed");
		return 0;
	}

	/* the keyring afterwards is exactly the expected sequence, as a well-formed doubly linked
	 * list (full representation invariant: the inductive step is closed) */
	PROP(jwks_item_count(set) == m, "C16: count after the operation");
	for (j = 0; j < NITEMS; j++) {
		if (j < m) {
			ll_t *nx = (j + 1 < m) ? &exp[j + 1]->node : &set->head;
			ll_t *pv = (j > 0) ? &exp[j - 1]->node : &set->head;
			PROP(jwks_item_get(set, j) == exp[j], "C16: order after the operation");
			PROP(exp[j]->node.next == nx && exp[j]->node.prev == pv, "C16: list links stay well-formed");
		}
	}
	PROP(jwks_item_get(set, m) == NULL, "C16: nothing beyond the last item");
	PROP(set->head.next == (m ? &exp[0]->node : &set->head) && set->head.prev == (m ? &exp[m - 1]->node : &set->head),
	     "C16: list head stays well-formed");
	/* releases are exact: what is gone is exactly what the removed items owned (CBMC's own
	 * double-free / invalid-free / use-after-free checks are active in this query) */
	{
		long gone = 0, gone_json = 0;
		for (i = 0; i < NITEMS; i++) {
			int kept = 0;
			for (j = 0; j < NITEMS; j++)
				if (j < m && exp[j] == ref[i])
					kept = 1;
			if (!kept) {
				gone += owned[i];
				gone_json++;
			}
		}
		PROP(vf_live == live_before - gone && vj_live == vj_before - gone_json,
		     "C16: exactly the removed items and what they own are released (no leak, nothing released twice)");
	}
	return 0;
}
#endif

#ifdef SIDE_LOAD
/* element i of the document as the property defines it */
static const json_t *doc_element(const json_t *d, unsigned i, unsigned *count)
{
	const json_t *keys = (d->type == JSON_OBJECT) ? json_object_get(d, "keys") : NULL;
	if (!keys) {
		*count = 1;
		return i == 0 ? d : NULL;
	}
	if (keys->type != JSON_ARRAY) {
		*count = 0;               /* "keys" that is not an array: no elements */
		return NULL;
	}
	*count = (unsigned)json_array_size(keys);
	return json_array_get(keys, i);
}

#ifndef PRE
#define PRE 0
#endif
#ifndef ROUTE
#define ROUTE 0
#endif
#if SHAPE <= 2
#define CNT 1
#elif SHAPE == 3
#define CNT 0
#else
#define CNT NELEM
#endif

int main(void)
{
	jwk_set_t *set = NULL, *ret;
	const unsigned pre = PRE;
	unsigned i, cnt = 0;
	static const char text[] = "{}";       /* opaque: the parse result is havocked */
	jwk_item_t *old0 = NULL;

	vf_install_alloc();
	base_live = vf_live;
	base_vj = vj_live;
	vf_cls = VF_CLS_SET | VF_CLS_ITEM;
#if PRE
	/* loading into an existing keyring that already holds one item */
	set = jwks_create(NULL);
	__CPROVER_assume(set != NULL);
	old0 = mk_item();
	vf_cls = VF_CLS_SET | VF_CLS_ITEM;
	real_jwks_item_add(set, old0);
#endif
#ifdef STRN_SYMBOLIC
	size_t slen = nondet_size_t();
	char *sbuf;
	__CPROVER_assume(slen <= STRN_MAX);
	sbuf = malloc(slen);                     /* exactly slen bytes: sbuf[-1] and sbuf[slen] are out of bounds */
	__CPROVER_assume(sbuf != NULL);
	for (i = 0; i < STRN_MAX; i++)
		if (i < slen)
			sbuf[i] = nondet_char();
#endif
#ifdef FAULT_K
	vf_alloc_no = 0;                 /* concrete request index from here on */
	vf_fail_at = FAULT_K;
#endif
#if ROUTE == 0
	ret = jwks_create(text);
#elif ROUTE == 1
	ret = jwks_load(set, text);
#elif ROUTE == 2 && defined(STRN_SYMBOLIC)
	ret = jwks_load_strn(set, sbuf, slen);
#elif ROUTE == 2
	ret = jwks_load_strn(set, text, 2);
#elif ROUTE == 3
	ret = jwks_load_fromfile(set, "f");
#elif ROUTE == 4
	ret = jwks_load_fromfp(set, (FILE *)&parse_calls);
#elif defined(STRN_SYMBOLIC)
	ret = jwks_create_strn(sbuf, slen);
#else
	ret = jwks_create_strn(text, 2);
#endif
#ifdef STRN_SYMBOLIC
	{
		unsigned same = parse_calls == 1 && parse_len == slen;
		for (i = 0; i < STRN_MAX; i++)
			if (i < slen && parse_bytes[i] != sbuf[i])
				same = 0;
		PROP(same, "C07: the counted-length entry points hand the parser exactly the caller's bytes (all of them, nothing else)");
		REACH(slen == 0 && ret != NULL, "zero-length text");
		REACH(slen == STRN_MAX && sbuf[STRN_MAX - 1] == '\0', "text whose last counted byte is NUL");
	}
#endif
#ifdef FAULT_K
	/* C17: under a fault the load either fails through its documented channel (NULL, or the
	 * keyring/item error) or behaves as without the fault; CBMC's pointer checks are on */
	if (!ret) {
		PROP(set == NULL, "C17: a load into an existing keyring never loses it");
		REACHF(vf_faulted, "load failed under the fault");
		return 0;
	}
	if (vf_faulted) {
		unsigned n_ = (unsigned)jwks_item_count(ret), k_;
		for (k_ = 0; k_ < 3; k_++) {
			if (k_ < n_)
				PROP(jwks_item_get(ret, k_) != NULL, "C17: no NULL item is linked into the keyring");
		}
		PROP(n_ == pre + CNT || jwks_error(ret) || jwks_error_any(ret), "C17: a key lost to an allocation fault is reported on the keyring or an item");
		REACHF(jwks_error(ret), "fault reported on the keyring");
		return 0;
	}
#endif
	PROP(ret != NULL && (set == NULL || ret == set), "C07: the load functions return the keyring");
	PROP(parse_calls == 1 && (parse_flags & JSON_DECODE_ANY), "C07: the text is parsed once, any top-level type allowed");
	if (!ret)
		return 0;

#if SHAPE == 0
	PROP(jwks_error(ret) && jwks_error_msg(ret)[0] != '\0', "C07: text that is not JSON sets the keyring error with a message");
	PROP(jwks_item_count(ret) == pre, "C07: text that is not JSON adds no item");
#else
	{
		const json_t *keys = (doc->type == JSON_OBJECT) ? json_object_get(doc, "keys") : NULL;

		(void)doc_element(doc, 0, &cnt);
		PROP(cnt == CNT, "harness: element count of the havocked document");
		PROP(!jwks_error(ret), "C07: a JSON document does not set the keyring error");
		if (!keys || keys->type == JSON_ARRAY)
			PROP(jwks_item_count(ret) == pre + cnt,
			     "C07: one item per element of the keys array, a single item without a keys member");
		if (pre)
			PROP(jwks_item_get(ret, 0) == old0, "C16: loads append after the existing items");
		for (i = 0; i < CNT; i++) {
			const json_t *el;
			const jwk_item_t *it;
			const json_t *jkty, *jalg;
			int kty_known;

			el = doc_element(doc, i, &cnt);
			it = jwks_item_get(ret, pre + i);
			PROP(it != NULL && el != NULL, "C07: item i exists for element i");
			if (!it || !el)
				break;
			PROP(it->json != NULL && vj_equal_copy(it->json, el), "C07: items are in document order (item i holds element i)");
			if (it->error) {
				PROP(it->error_msg[0] != '\0', "C07/C14: an item flagged as bad carries a non-empty message");
			} else {
				PROP(it->kty == JWK_KEY_TYPE_EC || it->kty == JWK_KEY_TYPE_RSA || it->kty == JWK_KEY_TYPE_OKP ||
				     it->kty == JWK_KEY_TYPE_OCT, "C07: an item without error has a known key type");
				if (it->kty == JWK_KEY_TYPE_OCT)
					PROP(it->provider == JWT_CRYPTO_OPS_ANY && it->oct.key != NULL && it->oct.len > 0 &&
					     it->bits == 8 * it->oct.len, "C07/C09: a good oct item holds its key bytes and bits == 8*len");
				else
					PROP(it->provider_data != NULL, "C07: a good asymmetric item holds a provider key object");
			}
			/* input defects that must be reported on the item */
			jkty = el->type == JSON_OBJECT ? json_object_get(el, "kty") : NULL;
			jalg = el->type == JSON_OBJECT ? json_object_get(el, "alg") : NULL;
			kty_known = jkty && jkty->type == JSON_STRING &&
				    (ref_streq(VJ(jkty)->s, "EC") || ref_streq(VJ(jkty)->s, "RSA") ||
				     ref_streq(VJ(jkty)->s, "OKP") || ref_streq(VJ(jkty)->s, "oct"));
			if (!kty_known)
				PROP(it->error, "C07: an element that is not an object with a known string kty yields an errored item");
			if (kty_known && jalg && jalg->type != JSON_STRING)
				PROP(it->error, "C07: a non-string alg yields an errored item");
			if (kty_known && ref_streq(VJ(jkty)->s, "oct")) {
				const json_t *jk = json_object_get(el, "k");
				int k_ok = jk && jk->type == JSON_STRING &&
					   ref_b64url_decode(VJ(jk)->s, VJ_SLEN, (unsigned char *)0, 0) > 0;
				if (!k_ok)
					PROP(it->error, "C07: an oct key whose k is missing, not a string, empty or not base64url yields an errored item");
				else if (!jalg || jalg->type == JSON_STRING)
					PROP(!it->error, "C07: a well-formed oct key is usable");
			}
			if (i == CNT - 1) {
#if SHAPE == 2 || SHAPE == 5 || SHAPE == 6
				REACH(!it->error && it->kty == JWK_KEY_TYPE_OCT, "usable oct item");
				REACH(!it->error && it->kty == JWK_KEY_TYPE_EC, "element imported through the provider");
#endif
#if SHAPE == 1 || SHAPE == 5 || SHAPE == 6 || SHAPE == 7
				REACH(it->error && el->type != JSON_OBJECT, "non-object element reported");
#endif
#if SHAPE == 7
				REACH(i == 1 && it->error && it->json->type == JSON_INTEGER, "second element (an integer) became the second item");
#endif
			}
		}
	}
#endif
	/* leak balance of the load path: what is live afterwards is exactly what the keyring owns
	 * (the set, each item, its kid, its oct key bytes, its JSON copy) plus the document reference
	 * the oracle kept - so no temporary (decode buffers, the parsed document) is leaked.  The
	 * release path itself (jwks_free and friends) is decided by the C16 queries. */
	{
		long own = 1, ownj = 0;           /* the set */
		unsigned total = pre + (SHAPE == 0 ? 0 : CNT);
		for (i = 0; i < 3; i++) {
			const jwk_item_t *it;
			if (i >= total)
				break;
			it = jwks_item_get(ret, i);
			if (!it)
				break;
			own += 1 + (it->kid != NULL) + (it->provider == JWT_CRYPTO_OPS_ANY && it->oct.key != NULL);
			ownj += it->json ? (long)VJ(it->json)->weight : 0;
		}
#if SHAPE != 0
		ownj += (long)VJ(doc)->weight;    /* the reference kept by vf_parse for the oracle */
#endif
		PROP(vf_live - base_live == own && vj_live - base_vj == ownj,
		     "C07: nothing but what the keyring owns stays allocated after a load (no leaked temporary)");
	}
#ifdef FREE_AFTER
	/* C16 "no sequence leaks": load, then release the keyring - everything the load allocated
	 * (items good or errored, their key bytes, kid, JSON copies) is gone */
	jwks_free(ret);
	PROP(vf_live == base_live, "C16: releasing the keyring releases every block the load allocated (errored items included)");
#if SHAPE != 0
	PROP(vj_live - base_vj == (long)VJ(doc)->weight, "C16: releasing the keyring releases every JSON copy the load made");
#endif
#endif
	return 0;
}
#endif

#ifdef SIDE_VALUES
/* jwk_process_values() driven directly: alg, use, key_ops, kid each absent or of ANY JSON type,
 * key_ops an array of up to 2 elements of any type */
void __CPROVER_file_local_jwks_c_jwk_process_values(json_t *jwk, jwk_item_t *item);

int main(void)
{
	static const char *const va[] = { "alg", "use", "key_ops", "kid" };
	static jwk_item_t item;
	vj_t *o, *ops;
	unsigned k;
	const json_t *jalg, *juse, *jkid;

	vf_install_alloc();
	o = vj_new(JSON_OBJECT);
	__CPROVER_assume(o != NULL);
	for (k = 0; k < 4; k++) {
		strcpy(o->key[k], va[k]);
		if (k == 2)
			continue;
		if (nondet_bool())
			vj_attach_member(o, k, VJ(vj_havoc_scalar_or_empty()));
	}
	if (nondet_bool()) {
		if (nondet_bool()) {
			ops = VJ(vj_havoc_array(2, 0));
		} else {
			ops = VJ(vj_havoc_scalar_or_empty());
			__CPROVER_assume(ops->j.type != JSON_ARRAY);
		}
		vj_attach_member(o, 2, ops);
	}
	memset(&item, 0, sizeof(item));
	__CPROVER_file_local_jwks_c_jwk_process_values(&o->j, &item);

	jalg = json_object_get(&o->j, "alg");
	juse = json_object_get(&o->j, "use");
	jkid = json_object_get(&o->j, "kid");
	if (jalg && jalg->type != JSON_STRING)
		PROP(item.error && item.error_msg[0] != '\0', "C07: a non-string alg is reported on the item");
	else
		PROP(!item.error, "C07: use/key_ops/kid of any type never make the item bad");
	if (!item.error) {
		PROP(item.alg == (jalg ? ref_str_alg(VJ(jalg)->s) : JWT_ALG_NONE), "C08: alg is reported as the JWK states it");
		PROP(item.use == (juse && juse->type == JSON_STRING && ref_streq(VJ(juse)->s, "sig") ? JWK_PUB_KEY_USE_SIG :
				  juse && juse->type == JSON_STRING && ref_streq(VJ(juse)->s, "enc") ? JWK_PUB_KEY_USE_ENC :
				  JWK_PUB_KEY_USE_NONE), "C08: use is reported as the JWK states it");
		if (jkid && jkid->type == JSON_STRING && VJ(jkid)->s[0] != '\0')
			PROP(item.kid != NULL && strcmp(item.kid, VJ(jkid)->s) == 0, "C08: kid is reported as the JWK states it");
		else
			PROP(item.kid == NULL, "C08: no kid unless the JWK has a non-empty string kid");
		{
			const json_t *jops = json_object_get(&o->j, "key_ops");
			unsigned expect = 0, i;
			static const struct { const char *n; unsigned v; } tbl[] = {
				{ "sign", JWK_KEY_OP_SIGN }, { "verify", JWK_KEY_OP_VERIFY }, { "encrypt", JWK_KEY_OP_ENCRYPT },
				{ "decrypt", JWK_KEY_OP_DECRYPT }, { "wrapKey", JWK_KEY_OP_WRAP }, { "unwrapKey", JWK_KEY_OP_UNWRAP },
				{ "deriveKey", JWK_KEY_OP_DERIVE_KEY }, { "deriveBits", JWK_KEY_OP_DERIVE_BITS } };
			if (jops && jops->type == JSON_ARRAY)
				for (i = 0; i < 2; i++) {
					const json_t *e = json_array_get(jops, i);
					unsigned t;
					if (e && e->type == JSON_STRING)
						for (t = 0; t < 8; t++)
							if (ref_streq(VJ(e)->s, tbl[t].n))
								expect |= tbl[t].v;
				}
			PROP(item.key_ops == expect, "C08: key_ops is the union of the known operations listed, unknown ones ignored");
		}
	}
	REACH(item.kid != NULL && item.use == JWK_PUB_KEY_USE_ENC, "kid and use=enc imported");
	REACH(item.key_ops == (JWK_KEY_OP_SIGN | JWK_KEY_OP_VERIFY), "sign+verify imported");
	REACH(item.error, "non-string alg reported");
	return 0;
}
#endif

#ifdef SIDE_OCT
/* process_octet() driven directly: oct key bytes = reference base64url decoding of k */
int __CPROVER_file_local_jwks_c_process_octet(json_t *jwk, jwk_item_t *item);

int main(void)
{
	static const char *const va[] = { "k" };
	static jwk_item_t item;
	json_t *o;
	const json_t *jk;
	unsigned char ref[VJ_SLEN];
	int r, rn = -1;
	unsigned i, same = 1;

	vf_install_alloc();
	o = vj_havoc_object(va, 1, 0);
	memset(&item, 0, sizeof(item));
	item.kty = JWK_KEY_TYPE_OCT;
	r = __CPROVER_file_local_jwks_c_process_octet(o, &item);
	jk = json_object_get(o, "k");
	if (jk && jk->type == JSON_STRING)
		rn = ref_b64url_decode(VJ(jk)->s, VJ_SLEN, ref, VJ_SLEN);
	if (rn <= 0) {
		PROP(r != 0 && item.error && item.error_msg[0] != '\0' && item.oct.key == NULL, "C07: an oct JWK without a decodable string k is refused with a message");
	} else {
		PROP(r == 0 && !item.error, "C08: a well-formed oct key is imported");
		PROP(item.oct.len == (size_t)rn && item.bits == 8 * (size_t)rn, "C08/C09: oct length and size in bits are those of the decoded k");
		for (i = 0; i < VJ_SLEN; i++)
			if ((int)i < rn && ((unsigned char *)item.oct.key)[i] != ref[i])
				same = 0;
		PROP(same, "C08: oct bytes equal the base64url decoding of k");
		PROP(item.is_private_key && item.provider == JWT_CRYPTO_OPS_ANY, "C08: an oct key is a private (symmetric) key usable under any provider");
	}
	REACH(r == 0 && rn == 9, "nine key bytes imported");
	REACH(r != 0 && jk && jk->type == JSON_STRING, "undecodable k refused");
	return 0;
}
#endif
