/* C09 - key-strength floor: jwt_sign() and jwt_verify_sig() driven directly with an arbitrary
 * (algorithm, key type, recorded size) triple; the crypto oracle must be reached exactly when the
 * floor predicate of the property (ref_floor_ok) holds for a key of the right kind.
 *
 * Real code: jwt_sign, jwt_verify_sig, _verify_sha_hmac, __check_hmac, __check_key_bits,
 * sign_sha_hmac, jwt_base64uri_decode/encode, base64_*.  Models: M1, M3 (oracle), M6.
 */
#include <string.h>
#include "vf.h"
#include "ref.h"
#include "provider_stub.h"

json_t *vf_parse(unsigned call_no, const char *buf, size_t len, size_t flags) { return NULL; }
void vf_dump_hook(unsigned call_no, const json_t *tree, size_t flags, const char *text) { }

static jwk_item_t key;
static unsigned char octkey[4];
static jwt_t jwt;

int main(void)
{
	unsigned a = nondet_uint(), t = nondet_uint();
	int kind_ok, floor_ok;

	vf_install_alloc();
	memset(&key, 0, sizeof(key));
	memset(&jwt, 0, sizeof(jwt));
	__CPROVER_assume(a >= JWT_ALG_HS256 && a < JWT_ALG_INVAL);
	__CPROVER_assume(t >= JWK_KEY_TYPE_EC && t <= JWK_KEY_TYPE_OCT);
	jwt.alg = (jwt_alg_t)a;
	jwt.key = &key;
	key.kty = (jwk_key_type_t)t;
	key.bits = nondet_size_t();
	/* the key's descriptive attributes are arbitrary: the floor depends on none of them (a key that
	 * names the very algorithm in its "alg" member is still measured) */
	key.alg = (jwt_alg_t)nondet_uint();
	__CPROVER_assume(key.alg >= JWT_ALG_NONE && key.alg < JWT_ALG_INVAL);
	key.use = (jwk_pub_key_use_t)nondet_uint();
	key.key_ops = (jwk_key_op_t)nondet_uint();
	key.is_private_key = nondet_int();
	key.curve[0] = nondet_char(); key.curve[1] = nondet_char(); key.curve[2] = '\0';
	/* stated range: recorded sizes below 2^31 bits (the gate narrows size_t to int) */
	__CPROVER_assume(key.bits < (1UL << 31));
	if (key.kty == JWK_KEY_TYPE_OCT) {
		key.provider = JWT_CRYPTO_OPS_ANY;
		key.oct.key = octkey;
		key.oct.len = key.bits / 8;
		__CPROVER_assume(key.bits % 8 == 0);      /* import invariant bits == 8*len */
	} else {
		key.provider = JWT_CRYPTO_OPS_OPENSSL;
		key.provider_data = nondet_ptr();
	}

	/* a key of the kind the algorithm can be run with at the core layer: oct for HS*, a provider
	 * key object for the asymmetric algorithms (family proper is the provider layer's test) */
	kind_ok = ref_alg_is_hmac(jwt.alg) ? key.kty == JWK_KEY_TYPE_OCT : key.kty != JWK_KEY_TYPE_OCT;
	floor_ok = ref_floor_ok(jwt.alg, key.bits);

#ifdef SIDE_SIGN
	{
		char *out = NULL;
		unsigned int len = 0;
		static const char msg[] = "ab.cd";
		int r = jwt_sign(&jwt, &out, &len, msg, 5);

		PROP((pv_hmac_calls + pv_pem_calls > 0) == (floor_ok && kind_ok),
		     "C09: signing oracle reached exactly when the key is at or above the floor");
		PROP(pv_hmac_calls + pv_pem_calls <= 1, "C09: at most one signing operation");
		if (!(floor_ok && kind_ok))
			PROP(r != 0, "C09: signing with a key below the floor fails");
		if (r == 0)
			PROP(floor_ok && kind_ok && out != NULL, "C09: successful signing implies the floor");
		if (floor_ok && kind_ok && pv_s_ok)
			PROP(r == 0, "C09: keys at or above the floor work (sign)");
		REACH(r == 0 && jwt.alg == JWT_ALG_HS256 && key.bits == 256, "HS256 at exactly 256 bits signs");
		REACH(r != 0 && jwt.alg == JWT_ALG_HS256 && key.bits == 248, "HS256 at 248 bits refused");
		REACH(r != 0 && jwt.alg == JWT_ALG_HS256 && key.alg == JWT_ALG_HS256 && key.bits == 248, "HS256 key naming HS256 at 248 bits refused");
		REACH(r == 0 && jwt.alg == JWT_ALG_RS256 && key.bits == 2048, "RS256 at 2048 signs");
		REACH(r != 0 && jwt.alg == JWT_ALG_PS512 && key.bits == 2047, "PS512 at 2047 refused");
		REACH(r == 0 && jwt.alg == JWT_ALG_ES512 && key.bits == 521, "ES512 at 521 signs");
		REACH(r == 0 && jwt.alg == JWT_ALG_EDDSA && key.bits == 456, "EdDSA at 456 signs");
	}
#else
	{
		static const char tok[] = "ab.cd";
		char sig[5];
		unsigned i;
		jwt_t *r;

		for (i = 0; i < 4; i++)
			sig[i] = nondet_char();
		sig[4] = '\0';
		r = jwt_verify_sig(&jwt, tok, 5, sig);
		PROP(r == &jwt, "C09: jwt_verify_sig hands back the object");
		PROP(pv_hmac_calls + pv_pem_calls + pv_verify_calls <= 1, "C09: at most one crypto operation");
		if (pv_hmac_calls + pv_pem_calls + pv_verify_calls)
			PROP(floor_ok && kind_ok, "C09: verification oracle reached only at or above the floor");
		if (!(floor_ok && kind_ok))
			PROP(jwt.error != 0 && jwt.error_msg[0] != '\0',
			     "C09: verification with a key below the floor fails with an error");
		if (jwt.error == 0)
			PROP(floor_ok && kind_ok, "C09: successful verification implies the floor");
		/* at or above the floor the verdict is the oracle's: HMAC always consults it; the
		 * asymmetric path consults it whenever the signature text decodes */
		if (floor_ok && kind_ok && ref_alg_is_hmac(jwt.alg))
			PROP(pv_hmac_calls == 1, "C09: keys at or above the floor work (HMAC verify)");
		if (floor_ok && kind_ok && !ref_alg_is_hmac(jwt.alg) &&
		    ref_b64url_decode(sig, 4, (unsigned char *)0, 0) > 0)
			PROP(pv_verify_calls == 1 && (jwt.error == 0) == (pv_v_said_valid != 0),
			     "C09: keys at or above the floor work (asymmetric verify)");
		REACH(jwt.error == 0 && jwt.alg == JWT_ALG_HS512 && key.bits == 512, "HS512 at 512 verifies");
		REACH(jwt.error != 0 && jwt.alg == JWT_ALG_HS384 && key.bits == 376 && pv_hmac_calls == 0, "HS384 at 376 refused");
		REACH(jwt.error == 0 && jwt.alg == JWT_ALG_ES256K && key.bits == 256, "ES256K at 256 verifies");
		REACH(jwt.error != 0 && jwt.alg == JWT_ALG_ES256 && key.bits == 384 && pv_verify_calls == 0, "ES256 with a 384-bit key refused");
		REACH(jwt.error != 0 && jwt.alg == JWT_ALG_RS384 && key.bits == 2047 && pv_verify_calls == 0, "RS384 at 2047 refused");
		REACH(jwt.error == 0 && jwt.alg == JWT_ALG_EDDSA && key.bits == 256, "EdDSA at 256 verifies");
	}
#endif
	return 0;
}
