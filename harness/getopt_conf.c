/* getopt model conformance self-test: the scenarios of replay/getopt_conf.c run on the model */
#include "vf.h"
json_t *vf_parse(unsigned call_no, const char *buf, size_t len, size_t flags) { return NULL; }
void vf_dump_hook(unsigned call_no, const json_t *tree, size_t flags, const char *text) { }
#include "../replay/getopt_conf.c"
