/* C20 - tools/key2jwk.c: process_ec_key() (with ec_alg_type, get_one_bn) executed for real over M2 +
 * M4 for an EC key whose coordinates and private scalar are ARBITRARY integers below 2^(8w) - in
 * particular integers with leading zero bytes (1 key in 85 has one): the JWK members x, y, d must be
 * the base64url of exactly w = ceil(bits/8) octets (RFC 7518 sections 6.2.1.2 / 6.2.2.1), denoting
 * the same integers, and alg/crv must follow the curve. */
#include <string.h>
#include "vf.h"
#include "ref.h"
#include "openssl_stubs.h"

json_t *vf_parse(unsigned call_no, const char *buf, size_t len, size_t flags) { return NULL; }
void vf_dump_hook(unsigned call_no, const json_t *tree, size_t flags, const char *text) { }

void __CPROVER_file_local_key2jwk_c_process_ec_key(EVP_PKEY *pkey, int priv, json_t *jwk);
extern unsigned vk_width, vk_nbn, vk_bn_len[];
extern size_t vk_bits;
extern const char *vk_group;
extern unsigned char vk_bn[][VO_IMAX];
const char *__progname = "key2jwk";

#ifndef BITS
#define BITS 256
#endif
#define W ((BITS + 7) / 8)

static long pkey_obj;

static void check_member(json_t *jwk, const char *name, unsigned idx)
{
	const json_t *m = json_object_get(jwk, name);
	unsigned char dec[W + 3];
	int rn, same = 1;
	unsigned i, pad;

	PROP(m != NULL && m->type == JSON_STRING, "C20: the EC member is written as a string");
	if (!m || m->type != JSON_STRING)
		return;
	rn = ref_b64url_decode(VJ(m)->s, VJ_SLEN, dec, W + 3);
	PROP(rn == W, "C20: EC x, y and d are written with the full field width (RFC 7518: fixed-width octet strings)");
	if (rn != W)
		return;
	pad = W - vk_bn_len[idx];
	for (i = 0; i < W; i++)
		if (dec[i] != (i < pad ? 0 : vk_bn[idx][i - pad]))
			same = 0;
	PROP(same, "C20: the member denotes the same integer as the key parameter");
}

int main(void)
{
	json_t *jwk;
	int priv = nondet_bool();
	const json_t *a, *c;

	vf_install_alloc();
	vk_width = W;
	vk_bits = BITS;
	vk_group = (BITS == 256 && nondet_bool()) ? "secp256k1" : (BITS == 256 ? "prime256v1" : BITS == 384 ? "secp384r1" : "secp521r1");
	jwk = json_object();
	__CPROVER_assume(jwk != NULL);
	__CPROVER_file_local_key2jwk_c_process_ec_key((EVP_PKEY *)&pkey_obj, priv, jwk);

	PROP(vk_nbn == (priv ? 3u : 2u), "C20: x, y and (for private keys) d are exported");
	check_member(jwk, "x", 0);
	check_member(jwk, "y", 1);
	if (priv)
		check_member(jwk, "d", 2);
	else
		PROP(json_object_get(jwk, "d") == NULL, "C20: a public key is exported without d");
	a = json_object_get(jwk, "alg");
	c = json_object_get(jwk, "crv");
	PROP(a && c && a->type == JSON_STRING && c->type == JSON_STRING, "C20: alg and crv are written");
	if (a && c) {
		int k1 = ref_streq(vk_group, "secp256k1");
		PROP(ref_streq(VJ(a)->s, BITS == 256 ? (k1 ? "ES256K" : "ES256") : BITS == 384 ? "ES384" : "ES512"), "C20: alg follows the curve");
		PROP(ref_streq(VJ(c)->s, BITS == 256 ? (k1 ? "secp256k1" : "P-256") : BITS == 384 ? "P-384" : "P-521"), "C20: crv follows the curve");
	}
	PROP(vo_live == 0, "C20: every BIGNUM fetched is released");
	REACH(vk_bn_len[0] == W - 1 && priv, "x with one leading zero byte, private key");
	REACH(vk_bn_len[1] == 0, "y = 0");
	return 0;
}
