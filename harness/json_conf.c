/* M2 conformance self-test: the scenarios of replay/json_conf.c run on the model (see that file) */
#include "vf.h"
#include "../replay/json_conf.c"
