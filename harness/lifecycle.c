/* C17 (object lifecycle) - jwt_checker_new / jwt_builder_new, configuration and free with the
 * FAULT_K-th allocation request failing (allocator installed through the real jwt_set_alloc, also
 * routed into the JSON model): new either reports failure through its documented channel (NULL)
 * or hands out a live, fully formed object; every later call on the handle and its release are
 * memory-safe (CBMC pointer checks: use of a released object, double release); a configuration
 * call under fault either takes effect or reports an error.
 * Real code: FUNC(new), FUNC(free), FUNC(error*), FUNC(setkey), jwt_checker_claim_set/get/del,
 * jwt_checker_time_leeway, jwt_builder_claim_set / header_set (setters), jwt_builder_enable_iat,
 * jwt_builder_time_offset. */
#include <string.h>
#include "vf.h"
#include "ref.h"

/* JSON text handed to a setter: the parse result is an arbitrary small object (or NULL) */
static const char *const palpha[] = { "a", "z" };
json_t *vf_parse(unsigned call_no, const char *buf, size_t len, size_t flags)
{
	return nondet_bool() ? vj_havoc_object(palpha, 2, 0) : NULL;
}
void vf_dump_hook(unsigned call_no, const json_t *tree, size_t flags, const char *text) { }

#ifndef FAULT_K
#define FAULT_K (-1)
#endif

int main(void)
{
	static jwk_item_t key;
	jwt_value_t jv;
	int r;

	key.alg = JWT_ALG_HS256;
	key.kty = JWK_KEY_TYPE_OCT;
	key.is_private_key = 1;
	vf_cls = VF_CLS_CHECKER | VF_CLS_BUILDER;
	vf_install_alloc();
	vf_alloc_no = 0;
	vf_fail_at = FAULT_K;

#ifdef SIDE_CHECKER
	{
		jwt_checker_t *c = jwt_checker_new();
		const char *got;
		if (!c) {
			PROP(vf_faulted, "C17: jwt_checker_new fails only when an allocation failed");
			REACHF(1, "new reported the failure as NULL");
			goto done;
		}
		/* a non-NULL handle is a live, fully formed object */
		PROP(c->c.payload != NULL && c->c.headers != NULL, "C17: a checker handed out by new has its claim and header objects");
		PROP(jwt_checker_error(c) == 0 && jwt_checker_error_msg(c)[0] == '\0', "C17: a new checker has no error");
		r = jwt_checker_setkey(c, JWT_ALG_HS256, &key);
		PROP(r == 0 && c->c.key == &key && c->c.alg == JWT_ALG_HS256, "C17: setkey needs no memory and takes effect");
		r = jwt_checker_claim_set(c, JWT_CLAIM_ISS, "me");
		got = jwt_checker_claim_get(c, JWT_CLAIM_ISS);
		if (r == 0)
			PROP(got != NULL && ref_streq(got, "me"), "C17: a claim expectation reported as set is the one read back");
		else
			PROP(vf_faulted && got == NULL, "C17: a claim expectation is refused only under allocation failure, and is then absent");
		r = jwt_checker_time_leeway(c, JWT_CLAIM_EXP, 5);
		PROP(r == 0, "C17: leeway needs no memory");
		jwt_checker_claim_del(c, JWT_CLAIM_ISS);
		PROP(jwt_checker_claim_get(c, JWT_CLAIM_ISS) == NULL, "C17: a deleted expectation is gone");
		jwt_checker_free(c);
		REACHF(vf_faulted, "fault hit after new");
		REACHF(!vf_faulted, "no fault in this scenario");
	}
#else
	{
		jwt_builder_t *b = jwt_builder_new();
		if (!b) {
			PROP(vf_faulted, "C17: jwt_builder_new fails only when an allocation failed");
			REACHF(1, "new reported the failure as NULL");
			goto done;
		}
		PROP(b->c.payload != NULL && b->c.headers != NULL, "C17: a builder handed out by new has its claim and header objects");
		PROP(jwt_builder_error(b) == 0 && jwt_builder_error_msg(b)[0] == '\0', "C17: a new builder has no error");
		r = jwt_builder_setkey(b, JWT_ALG_HS256, &key);
		PROP(r == 0 && b->c.key == &key && b->c.alg == JWT_ALG_HS256, "C17: setkey needs no memory and takes effect");
		memset(&jv, 0, sizeof(jv));
		jv.type = JWT_VALUE_INT;
		jv.name = "n";
		jv.int_val = 7;
		r = jwt_builder_claim_set(b, &jv);
		if (r == JWT_VALUE_ERR_NONE) {
			jwt_value_t g;
			memset(&g, 0, sizeof(g));
			g.type = JWT_VALUE_INT;
			g.name = "n";
			PROP(jwt_builder_claim_get(b, &g) == JWT_VALUE_ERR_NONE && g.int_val == 7, "C17: a claim reported as set is the one read back");
		} else {
			jwt_value_t g;
			memset(&g, 0, sizeof(g));
			g.type = JWT_VALUE_INT;
			g.name = "n";
			PROP(vf_faulted && jwt_builder_claim_get(b, &g) == JWT_VALUE_ERR_NOEXIST, "C17: a claim is refused only under allocation failure, and is then absent");
		}
		memset(&jv, 0, sizeof(jv));
		jv.type = JWT_VALUE_STR;
		jv.name = "h";
		jv.str_val = "v";
		r = jwt_builder_header_set(b, &jv);
		if (r != JWT_VALUE_ERR_NONE)
			PROP(vf_faulted, "C17: a header is refused only under allocation failure");
		/* JSON-typed values: a named member and a whole-object merge (the reference handed to
		 * jansson is consumed by it even when it fails: no second release) */
		memset(&jv, 0, sizeof(jv));
		jv.type = JWT_VALUE_JSON;
		jv.name = "j";
		jv.json_val = "{}";
		r = jwt_builder_claim_set(b, &jv);
		if (r != JWT_VALUE_ERR_NONE)
			PROP(r == JWT_VALUE_ERR_INVALID, "C17: a JSON claim is refused only as INVALID (malformed text or allocation failure)");
		memset(&jv, 0, sizeof(jv));
		jv.type = JWT_VALUE_JSON;
		jv.name = NULL;
		jv.replace = 1;
		jv.json_val = "{}";
		r = jwt_builder_header_set(b, &jv);
		if (r != JWT_VALUE_ERR_NONE)
			PROP(r == JWT_VALUE_ERR_INVALID, "C17: a whole-object JSON set is refused only as INVALID");
		PROP(jwt_builder_enable_iat(b, 0) == 1, "C17: enable_iat reports the previous setting (on by default)");
		PROP(jwt_builder_time_offset(b, JWT_CLAIM_EXP, 60) == 0, "C17: time_offset needs no memory");
		jwt_builder_free(b);
		REACHF(vf_faulted, "fault hit after new");
		REACHF(!vf_faulted, "no fault in this scenario");
	}
#endif
done:
	REACH(1, "scenario ran to its end");
	return 0;
}
