/* C04 - configuration bookkeeping by one-step induction: from an ARBITRARY checker configuration
 * (claim mask, leeways, expected iss/sub/aud present or not) ONE arbitrary configuration call
 * (jwt_checker_time_leeway / claim_set / claim_del, valid and invalid arguments) leaves exactly the
 * policy the documentation describes: "the policy in force is always that of the most recent
 * configuration calls", for call sequences of any length.  The policy abstraction is what
 * verification reads (the C04 verify query proves policy -> verdict): which checks are on, the
 * leeway of each check that is on, and the expected string of each string check that is on.
 */
#include <string.h>
#include "vf.h"
#include "ref.h"
#include "provider_stub.h"

json_t *vf_parse(unsigned call_no, const char *buf, size_t len, size_t flags) { return NULL; }
void vf_dump_hook(unsigned call_no, const json_t *tree, size_t flags, const char *text) { }

struct policy { int exp_on, nbf_on; long exp_lw, nbf_lw; int s_on[3]; char s[3][4]; };
static const jwt_claims_t sc[3] = { JWT_CLAIM_ISS, JWT_CLAIM_SUB, JWT_CLAIM_AUD };

static void read_policy(jwt_checker_t *c, struct policy *p)
{
	unsigned k, i;
	p->exp_on = (c->c.claims & JWT_CLAIM_EXP) != 0;
	p->nbf_on = (c->c.claims & JWT_CLAIM_NBF) != 0;
	p->exp_lw = c->c.exp;
	p->nbf_lw = c->c.nbf;
	for (k = 0; k < 3; k++) {
		const char *g = jwt_checker_claim_get(c, sc[k]);
		p->s_on[k] = (c->c.claims & sc[k]) != 0;
		for (i = 0; i < 4; i++)
			p->s[k][i] = 0;
		if (g)
			for (i = 0; i < 3 && g[i]; i++)
				p->s[k][i] = g[i];
		/* a string check that is on always has its expected value, one that is off has none */
		PROP((g != NULL) == (p->s_on[k] != 0), "C04: a string check is on exactly when an expected value is stored");
	}
}

int main(void)
{
	jwt_checker_t *c;
	struct policy pre, post;
	unsigned k, i, op = nondet_uint(), which = nondet_uint();
	static const char *const names[3] = { "iss", "sub", "aud" };

	vf_cls = VF_CLS_CHECKER;
	vf_install_alloc();
	c = jwt_checker_new();
	__CPROVER_assume(c != NULL);
	vf_cls = 0;
	PROP(c->c.claims == (JWT_CLAIM_EXP | JWT_CLAIM_NBF) && c->c.exp == 0 && c->c.nbf == 0,
	     "C04: a new checker checks exp and nbf with zero leeway and nothing else");

	/* arbitrary reachable configuration: any mask of the five checks, any leeways, expected strings
	 * present exactly for the string checks that are on (the representation invariant, re-established below) */
	c->c.claims = 0;
	if (nondet_bool()) c->c.claims |= JWT_CLAIM_EXP;
	if (nondet_bool()) c->c.claims |= JWT_CLAIM_NBF;
	c->c.exp = nondet_long();
	c->c.nbf = nondet_long();
	for (k = 0; k < 3; k++) {
		if (nondet_bool()) {
			char v[3];
			v[0] = nondet_char(); v[1] = nondet_char(); v[2] = '\0';
			__CPROVER_assume(v[0] >= 0 && v[1] >= 0);
			__CPROVER_assume(json_object_set_new(c->c.payload, names[k], json_string(v)) == 0);
			c->c.claims |= sc[k];
		}
	}
	read_policy(c, &pre);

	__CPROVER_assume(op < 3 && which < 4);
#ifdef ONLY_OP
	__CPROVER_assume(op == ONLY_OP);
#endif
	if (op == 0) {
		long secs = nondet_long();
		jwt_claims_t cl = which == 0 ? JWT_CLAIM_EXP : which == 1 ? JWT_CLAIM_NBF : which == 2 ? JWT_CLAIM_ISS : (jwt_claims_t)0;
		int r = jwt_checker_time_leeway(c, cl, secs);
		read_policy(c, &post);
		if (which >= 2) {
			PROP(r != 0, "C04: time_leeway on anything but exp/nbf is refused");
			PROP(post.exp_on == pre.exp_on && post.nbf_on == pre.nbf_on && (!pre.exp_on || post.exp_lw == pre.exp_lw) &&
			     (!pre.nbf_on || post.nbf_lw == pre.nbf_lw), "C04: a refused time_leeway changes nothing");
		} else {
			int *on = which == 0 ? &post.exp_on : &post.nbf_on;
			long *lw = which == 0 ? &post.exp_lw : &post.nbf_lw;
			PROP(r == 0, "C04: time_leeway on exp/nbf succeeds");
			PROP(*on == (secs >= 0), "C04: the check is switched off exactly by a negative leeway, on by any other");
			if (secs >= 0)
				PROP(*lw == secs, "C04: the leeway in force is the one most recently given");
			if (which == 0)
				PROP(post.nbf_on == pre.nbf_on && (!pre.nbf_on || post.nbf_lw == pre.nbf_lw), "C04: configuring exp leaves nbf alone");
			else
				PROP(post.exp_on == pre.exp_on && (!pre.exp_on || post.exp_lw == pre.exp_lw), "C04: configuring nbf leaves exp alone");
		}
		for (k = 0; k < 3; k++)
			PROP(post.s_on[k] == pre.s_on[k] && !strcmp(post.s[k], pre.s[k]), "C04: time_leeway leaves the string checks alone");
#if !defined(ONLY_OP) || ONLY_OP == 0
		REACH(which == 0 && secs == -1 && pre.exp_on && !post.exp_on, "exp switched off by -1");
		REACH(which == 0 && secs >= 0 && !pre.exp_on && pre.exp_lw == secs && post.exp_on, "exp re-enabled with the leeway it had before");
#endif
	} else {
		jwt_claims_t cl = which < 3 ? sc[which] : JWT_CLAIM_EXP;     /* EXP: not a string claim */
		char v[3];
		int r;
		v[0] = nondet_char(); v[1] = nondet_char(); v[2] = '\0';
		__CPROVER_assume(v[0] >= 0 && v[1] >= 0);
		r = (op == 1) ? jwt_checker_claim_set(c, cl, v) : jwt_checker_claim_del(c, cl);
		read_policy(c, &post);
		PROP(post.exp_on == pre.exp_on && post.nbf_on == pre.nbf_on && post.exp_lw == pre.exp_lw && post.nbf_lw == pre.nbf_lw,
		     "C04: claim_set / claim_del leave the time checks alone");
		for (k = 0; k < 3; k++) {
			if (which < 3 && k == which) {
				if (op == 1) {
					unsigned n = v[0] ? (v[1] ? 2 : 1) : 0;
					PROP(r == 0 && post.s_on[k], "C04: claim_set switches the check on");
					PROP(strlen(post.s[k]) == n && !strncmp(post.s[k], v, n), "C04: the expected value is the one most recently set");
				} else {
					PROP(!post.s_on[k], "C04: claim_del switches the check off");
				}
			} else {
				PROP(post.s_on[k] == pre.s_on[k] && !strcmp(post.s[k], pre.s[k]), "C04: other string checks are untouched");
			}
		}
		if (which == 3)
			PROP(r != 0, "C04: claim_set / claim_del on a claim that is not iss/sub/aud is refused");
#if !defined(ONLY_OP) || ONLY_OP == 1
		REACH(op == 1 && which == 1 && pre.s_on[1] && strcmp(pre.s[1], post.s[1]), "sub expectation replaced");
#endif
#if !defined(ONLY_OP) || ONLY_OP == 2
		REACH(op == 2 && which == 2 && pre.s_on[2], "aud expectation deleted");
#endif
	}
	return 0;
}
