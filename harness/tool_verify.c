/* C20 - tools/jwt-verify.c: the real main() (renamed tool_main by the translation pipeline with
 * -Dmain=tool_main) over stubs of the libjwt API it calls, the getopt_long model and an exit()
 * model that records the status a parent process would see (status & 0377).
 *
 *   -DSIDE_EXIT : NTOK tokens (argv route, or stdin route with -DSTDIN), ALL 2^NTOK verdict
 *                 vectors: exit status == 0  <=>  every token verified.
 *   -DSIDE_OPTS : one documented option in each of its spellings (short attached/detached, long
 *                 with = or detached): a well-formed invocation is not refused and the option's
 *                 argument reaches the library unchanged.
 */
#include <string.h>
#include <stdio.h>
#include <getopt.h>
#include "vf.h"
#include "ref.h"

json_t *vf_parse(unsigned call_no, const char *buf, size_t len, size_t flags) { return NULL; }
void vf_dump_hook(unsigned call_no, const json_t *tree, size_t flags, const char *text) { }

int tool_main(int argc, char *argv[]);

/* ------------------------------------------------------------------ libjwt API stubs */
static jwt_checker_t the_checker;
static jwk_set_t the_set;
static jwk_item_t the_item;
static unsigned verify_calls, failures;
static const char *seen_keyfile;
static jwt_alg_t seen_alg = JWT_ALG_INVAL;
static unsigned setkey_calls;
static jwt_alg_t item_alg;            /* alg attribute of the key in the file */

jwt_checker_t *jwt_checker_new(void) { return &the_checker; }
void jwt_checker_free(jwt_checker_t *c) { }
int jwt_checker_error(const jwt_checker_t *c) { return 0; }
const char *jwt_checker_error_msg(const jwt_checker_t *c) { return "m"; }

#ifdef LINES
/* -DLINES: standard input carries NTOK lines of arbitrary text (0..LMAX bytes each, no NUL, no
 * newline inside), each ended by a newline except, possibly, the last one */
#define LMAX 3
#ifndef NTOK
#define NTOK 2
#endif
static char line_txt[NTOK][LMAX + 1];
static unsigned line_len[NTOK];
static int last_unterminated;
#endif
static char a_tok[] = "x";

int jwt_checker_verify(jwt_checker_t *c, const char *token)
{
	int bad = nondet_bool();             /* arbitrary verdict for every token */
	__CPROVER_assert(c == &the_checker && token != NULL, "C20: verify called with the tool's checker and a token");
#ifdef LINES
	{
		unsigned i = verify_calls < NTOK ? verify_calls : NTOK - 1, j;
		int same = strlen(token) == line_len[i];
		for (j = 0; j < LMAX; j++)
			if (j < line_len[i] && same && token[j] != line_txt[i][j])
				same = 0;
		PROP(same, "C20: every standard-input line reaches the library as one token, without its line terminator and otherwise unchanged");
	}
#elif defined(SIDE_EXIT) && !defined(STDIN)
	PROP(token == a_tok, "C20: every argument reaches the library as one token, unchanged");
#endif
	verify_calls++;
	if (bad)
		failures++;
	return bad;
}

int jwt_checker_setkey(jwt_checker_t *c, const jwt_alg_t alg, const jwk_item_t *key)
{
	setkey_calls++;
	seen_alg = alg;
	__CPROVER_assert(key == &the_item, "C20: the key handed to the library is the first key of the file");
	return !ref_setkey_admits(alg, 1, item_alg);
}

int jwt_checker_setcb(jwt_checker_t *c, jwt_callback_t cb, void *ctx) { return 0; }

jwk_set_t *jwks_create_fromfile(const char *file_name)
{
	seen_keyfile = file_name;
	return &the_set;
}
void jwks_free(jwk_set_t *s) { }
int jwks_error(const jwk_set_t *s) { return 0; }
const char *jwks_error_msg(const jwk_set_t *s) { return ""; }
const jwk_item_t *jwks_item_get(const jwk_set_t *s, size_t index) { return index == 0 ? &the_item : NULL; }
int jwks_item_error(const jwk_item_t *item) { return 0; }
const char *jwks_item_error_msg(const jwk_item_t *item) { return ""; }
jwt_alg_t jwks_item_alg(const jwk_item_t *item) { return item_alg; }
jwt_value_error_t jwt_header_get(jwt_t *jwt, jwt_value_t *value) { return JWT_VALUE_ERR_INVALID; }
jwt_value_error_t jwt_claim_get(jwt_t *jwt, jwt_value_t *value) { return JWT_VALUE_ERR_INVALID; }

/* ------------------------------------------------------------------ environment */
const char *__progname = "jwt-verify";
static int exited, exit_status;
static void at_exit_check(void);

void exit(int status)
{
	exited = 1;
	exit_status = status & 0377;         /* what wait() reports */
	at_exit_check();
	__CPROVER_assume(0);
}

#ifndef NTOK
#define NTOK 2
#endif
static unsigned lines_left;

char *fgets(char *s, int size, FILE *stream)
{
	if (lines_left == 0)
		return NULL;
	lines_left--;
	__CPROVER_assert(size >= 3, "harness: fgets buffer");
#ifdef LINES
	{
		unsigned i = NTOK - 1 - lines_left, n = nondet_uint(), j;
		int has_nl = lines_left > 0 ? 1 : nondet_bool();
		__CPROVER_assert(size >= LMAX + 2, "harness: fgets buffer");
		__CPROVER_assume(n <= LMAX && (has_nl || n >= 1));     /* an empty read at end of input is EOF */
		for (j = 0; j < LMAX; j++) {
			char ch = nondet_char();
			/* no NUL / newline inside a line; blanks and CR are left out so that a tool which trimmed
			 * them (a harmless choice the property does not speak about) would not be reported */
			__CPROVER_assume(ch != '\0' && ch != '\n' && ch != '\r' && ch != ' ' && ch != '\t');
			line_txt[i][j] = ch;
			if (j < n)
				s[j] = ch;
		}
		line_len[i] = n;
		if (has_nl) {
			s[n] = '\n';
			s[n + 1] = '\0';
		} else {
			s[n] = '\0';
			last_unterminated = 1;
		}
		return s;
	}
#endif
	s[0] = 'x';
	s[1] = '\n';
	s[2] = '\0';
	return s;
}

static char a_prog[] = "jwt-verify", a_dash[] = "-", a_q[] = "-q";

#ifdef SIDE_EXIT
static void at_exit_check(void)
{
	PROP(verify_calls == NTOK, "C20: every supplied token is verified exactly once");
	PROP((exit_status == 0) == (failures == 0), "C20: jwt-verify exits 0 exactly when every token verified");
	REACH(failures == NTOK, "every token failed");
	REACH(failures == 0, "every token verified");
#ifdef LINES
	REACH(last_unterminated && line_len[NTOK - 1] == LMAX, "last line without a newline");
	REACH(!last_unterminated && line_len[0] == 0, "empty first line");
#endif
#if NTOK >= 2
	REACH(failures == 1, "one bad token among good ones");
#endif
}

int main(void)
{
	static char *argv[NTOK + 4];
	int argc = 0, i;

	argv[argc++] = a_prog;
#ifdef QUIET
	argv[argc++] = a_q;
#endif
#ifdef STDIN
	argv[argc++] = a_dash;
	lines_left = NTOK;
#else
	for (i = 0; i < NTOK; i++)
		argv[argc++] = a_tok;
#endif
	argv[argc] = NULL;
	tool_main(argc, argv);
	PROP(0, "C20: jwt-verify main ends in exit()");
	return 0;
}
#endif

#ifdef SIDE_OPTS
/* documented options of jwt-verify, extracted from its usage() text on every run */
#include "c20_verify_opts.h"
static unsigned which, spelling;
static char argbuf[16], wordbuf[32];
static const char keyfile[] = "k.json";
static int want_alg_opt;

static void at_exit_check(void)
{
	const struct c20_opt *o = &c20_opts[which];
	/* informational options end the run successfully; everything else must reach the tokens */
	if (o->shortc == 'h' || o->shortc == 'l') {
		PROP(exit_status == 0, "C20: -h/--help and -l/--list exit successfully in every spelling");
	} else {
		PROP(verify_calls == 1, "C20: a well-formed invocation with a documented option is not refused");
		if (o->shortc == 'a')
			PROP(setkey_calls == 1 && seen_alg == JWT_ALG_ES256, "C20: the algorithm given with -a/--algorithm reaches the library");
		if (o->shortc == 'k' || o->shortc == 'a')
			PROP(seen_keyfile && strcmp(seen_keyfile, keyfile) == 0, "C20: the key file given with -k/--key reaches the library");
	}
	REACH(1, "tool ran to its exit");
}

static unsigned put(char *dst, const char *src)
{
	unsigned i;
	for (i = 0; src[i]; i++)
		dst[i] = src[i];
	dst[i] = '\0';
	return i;
}

int main(void)
{
	static char *argv[10];
	static char kshort[] = "-k", kfile[] = "k.json";
	int argc = 0;
	const struct c20_opt *o;
	const char *arg;
	unsigned n;

	/* option and spelling are concrete per query (one query per documented option and spelling) */
	which = WHICH;
	spelling = SPELLING;
	o = &c20_opts[which];
	/* the key in the file carries no alg attribute unless -a is not the option under test */
	item_alg = (o->shortc == 'a') ? JWT_ALG_NONE : JWT_ALG_ES256;
	arg = o->shortc == 'a' ? "ES256" : o->shortc == 'k' ? keyfile : "cat";

	argv[argc++] = a_prog;
	if (o->shortc != 'k') {              /* a key is needed for a meaningful run */
		argv[argc++] = kshort;
		argv[argc++] = kfile;
	}
	switch (spelling) {
	case 0:                              /* -x  or  -xARG */
		wordbuf[0] = '-';
		wordbuf[1] = o->shortc;
		wordbuf[2] = '\0';
		if (o->has_arg)
			put(wordbuf + 2, arg);
		argv[argc++] = wordbuf;
		break;
	case 1:                              /* -x ARG */
		wordbuf[0] = '-';
		wordbuf[1] = o->shortc;
		wordbuf[2] = '\0';
		argv[argc++] = wordbuf;
		put(argbuf, arg);
		argv[argc++] = argbuf;
		break;
	case 2:                              /* --name  or  --name=ARG */
		wordbuf[0] = wordbuf[1] = '-';
		n = 2 + put(wordbuf + 2, o->longn);
		if (o->has_arg) {
			wordbuf[n++] = '=';
			put(wordbuf + n, arg);
		}
		argv[argc++] = wordbuf;
		break;
	default:                             /* --name ARG */
		wordbuf[0] = wordbuf[1] = '-';
		put(wordbuf + 2, o->longn);
		argv[argc++] = wordbuf;
		put(argbuf, arg);
		argv[argc++] = argbuf;
		break;
	}
	argv[argc++] = a_tok;
	argv[argc] = NULL;
	tool_main(argc, argv);
	PROP(0, "C20: jwt-verify main ends in exit()");
	return 0;
}
#endif
