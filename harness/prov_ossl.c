/* Provider layer, OpenSSL: libjwt/openssl/sign-verify.c executed for real over M4.
 *   -DSIDE_VERIFY  openssl_verify_sha_pem, all 11 asymmetric algorithms x any EVP_PKEY type x any
 *                  signature of 0..SIGMAX bytes (C01, C02 family, C05 PSS, C12 contract)
 *   -DSIDE_SIGN_EC openssl_sign_sha_pem EC branch + jwt_ec_d2i: DER (r, s) -> fixed-width r||s (C05)
 *   -DSIDE_SIGN    non-EC sign paths and HMAC (C05/C12)
 */
#include <string.h>
#include <openssl/evp.h>
#include <openssl/rsa.h>
#include "vf.h"
#include "ref.h"

/* C18: every static-lifetime object of the provider unit (list generated from the goto symbol
 * table on every run, vf/c18.py) keeps its value across a sign/verify call */
#ifdef PROP_C18
#include "c18o_gen.h"
static int c18_armed;
#define C18_BEGIN() do { c18_havoc(); c18_snapshot(); c18_armed = 1; } while (0)
#define C18_END() do { c18_check(); c18_armed = 0; } while (0)
/* observation points: every call out to the crypto library (stubs M4/M5) and to the other
 * provider happens with all process-wide state as it was on entry - a transient write (set,
 * call, restore) is visible to other threads exactly there */
void vf_c18_observe(void) { if (c18_armed) c18_check(); }
#else
#define C18_BEGIN() ((void)0)
#define C18_END() ((void)0)
#endif
#include "openssl_stubs.h"

json_t *vf_parse(unsigned call_no, const char *buf, size_t len, size_t flags) { return NULL; }
void vf_dump_hook(unsigned call_no, const json_t *tree, size_t flags, const char *text) { }

extern struct jwt_crypto_ops jwt_openssl_ops;
int openssl_process_eddsa(json_t *jwk, jwk_item_t *item) { return -1; }
int openssl_process_rsa(json_t *jwk, jwk_item_t *item) { return -1; }
int openssl_process_ec(json_t *jwk, jwk_item_t *item) { return -1; }
void openssl_process_item_free(jwk_item_t *item) { }
#ifdef PROP_C18
/* jwt_init (a constructor in jwt-crypto-ops.c) consults JWT_CRYPTO: unset here, the provider is
 * selected explicitly in setup() */
char *getenv(const char *name) { return NULL; }
/* C18 queries link the real libjwt/jwt-crypto-ops.c (it owns jwt_ops and the provider table); the
 * other provider is a stub whose entry points are observation points */
static int other_verify(jwt_t *jwt, const char *head, unsigned int head_len, unsigned char *sig, int sig_len) { vf_c18_observe(); return nondet_int(); }
static int other_sign(jwt_t *jwt, char **out, unsigned int *len, const char *str, unsigned int str_len) { vf_c18_observe(); return 1; }
struct jwt_crypto_ops jwt_gnutls_ops = { .name = "gnutls", .provider = JWT_CRYPTO_OPS_GNUTLS,
	.sign_sha_hmac = other_sign, .sign_sha_pem = other_sign, .verify_sha_pem = other_verify };
#else
struct jwt_crypto_ops *jwt_ops = &jwt_openssl_ops;
#endif

static jwk_item_t key;
static jwt_t jwt;
static long pkey_obj;               /* stands for the EVP_PKEY of the item */

#ifndef SIGMAX
#define SIGMAX 134
#endif

static const EVP_MD *want_md(jwt_alg_t a)
{
	switch (a) {
	case JWT_ALG_RS256: case JWT_ALG_PS256: case JWT_ALG_ES256: case JWT_ALG_ES256K: return vo_sha256;
	case JWT_ALG_RS384: case JWT_ALG_PS384: case JWT_ALG_ES384: return vo_sha384;
	case JWT_ALG_RS512: case JWT_ALG_PS512: case JWT_ALG_ES512: return vo_sha512;
	default: return NULL;
	}
}

static int is_es(jwt_alg_t a) { return a == JWT_ALG_ES256 || a == JWT_ALG_ES256K || a == JWT_ALG_ES384 || a == JWT_ALG_ES512; }
static int is_ps(jwt_alg_t a) { return a == JWT_ALG_PS256 || a == JWT_ALG_PS384 || a == JWT_ALG_PS512; }
static int is_rs(jwt_alg_t a) { return a == JWT_ALG_RS256 || a == JWT_ALG_RS384 || a == JWT_ALG_RS512; }

/* RFC 7518: the key family an algorithm may be evaluated with */
static int family_ok(jwt_alg_t a, int t)
{
	if (is_rs(a)) return t == EVP_PKEY_RSA;
	if (is_ps(a)) return t == EVP_PKEY_RSA || t == EVP_PKEY_RSA_PSS;
	if (is_es(a)) return t == EVP_PKEY_EC;
	if (a == JWT_ALG_EDDSA) return t == EVP_PKEY_ED25519 || t == EVP_PKEY_ED448;
	return 0;
}

static void setup(void)
{
#ifdef PROP_C18
	jwt_ops = &jwt_openssl_ops;
#endif
	unsigned a = nondet_uint();

	vf_install_alloc();
	memset(&key, 0, sizeof(key));
	memset(&jwt, 0, sizeof(jwt));
	__CPROVER_assume(a > JWT_ALG_HS512 && a < JWT_ALG_INVAL);
	jwt.alg = (jwt_alg_t)a;
	jwt.key = &key;
	key.kty = JWK_KEY_TYPE_EC;
	key.bits = nondet_size_t();
	__CPROVER_assume(ref_floor_ok(jwt.alg, key.bits));       /* guaranteed by the core layer (C09) */
	key.provider = JWT_CRYPTO_OPS_OPENSSL;
	key.provider_data = &pkey_obj;
	vo_key_type = nondet_int();
}

#ifdef SIDE_VERIFY
int main(void)
{
	static const char head[] = "ab.cd";
	static unsigned char sig[SIGMAX];
	int sig_len = nondet_int(), r, accepted;
	unsigned i;
	long live0;

	setup();
	__CPROVER_assume(sig_len >= 0 && sig_len <= SIGMAX);
#ifdef ONLY_ALG
	__CPROVER_assume(jwt.alg == ONLY_ALG);
#endif
#ifdef NOT_ES
	__CPROVER_assume(!is_es(jwt.alg));
#endif
	for (i = 0; i < SIGMAX; i++)
		sig[i] = nondet_uchar();
	live0 = vf_live;

	C18_BEGIN();
	r = jwt_openssl_ops.verify_sha_pem(&jwt, head, 5, sig, sig_len);
	C18_END();
	accepted = (r == 0 && jwt.error == 0);

	if (accepted) {
		PROP(vo_verify_calls == 1 && vo_valid, "C01: OpenSSL accepted => EVP_DigestVerify was consulted once and said valid");
		PROP(vo_pkey == (const EVP_PKEY *)&pkey_obj, "C01: verified with the key object of the configured item");
		PROP(vo_md == want_md(jwt.alg), "C01: verified with the digest the token algorithm prescribes");
		PROP(vo_tbs == (const unsigned char *)head && vo_tbs_len == 5, "C01: verified over exactly the bytes handed in");
		PROP(family_ok(jwt.alg, vo_key_type), "C02: an algorithm is evaluated only with a key of its family");
		if (is_ps(jwt.alg))
			PROP(vo_pad_set && vo_pad == RSA_PKCS1_PSS_PADDING && vo_salt_set && vo_salt == RSA_PSS_SALTLEN_AUTO,
			     "C05: PS* verifies with PSS padding and automatic salt length");
		else
			PROP(!vo_pad_set && !vo_salt_set, "C05: no padding override outside PS*");
		if (is_es(jwt.alg)) {
			unsigned w = (unsigned)((key.bits + 7) / 8), same = 1, zr = 0, zs = 0, st;
			PROP((unsigned)sig_len == 2 * w, "C01: ECDSA r||s length equals twice the field size of the key");
			PROP(vo_sig_is_der, "C01: ECDSA verified on the DER re-encoding of (r, s)");
			/* the integers inside the DER are the two halves of the signature */
			st = 0;
			for (i = 0; i < VO_IMAX; i++)
				if (i < w && !st) { if (sig[i] == 0) zr++; else st = 1; }
			st = 0;
			for (i = 0; i < VO_IMAX; i++)
				if (i < w && !st) { if (sig[w + i] == 0) zs++; else st = 1; }
			PROP(vo_r_len == w - zr && vo_s_len == w - zs, "C01: r and s keep their value (only leading zero bytes dropped)");
			for (i = 0; i < VO_IMAX; i++) {
				if (i < vo_r_len && vo_r[i] != sig[zr + i])
					same = 0;
				if (i < vo_s_len && vo_s[i] != sig[w + zs + i])
					same = 0;
			}
			PROP(same, "C01: r and s are the two halves of the signature, unchanged");
		} else {
			PROP(vo_sig == sig && vo_sig_len == (size_t)sig_len, "C01: verified on exactly the signature bytes handed in");
		}
	}
	if (vo_verify_calls && !vo_valid)
		PROP(!accepted, "C12: a signature the primitive rejects is rejected");
	PROP((r != 0) == (jwt.error != 0), "C12: the OpenSSL provider's return value is the per-call error flag");
	PROP(vf_live == live0, "C06: no allocation made through the libjwt allocator is leaked by verification");
#ifdef NOT_ES
	REACH(accepted && is_ps(jwt.alg) && vo_key_type == EVP_PKEY_RSA, "PS* accepted with a plain RSA key");
	REACH(accepted && jwt.alg == JWT_ALG_EDDSA && vo_key_type == EVP_PKEY_ED448, "Ed448 accepted");
	REACH(!accepted && is_rs(jwt.alg) && vo_key_type == EVP_PKEY_EC && vo_verify_calls == 0, "family mismatch rejected before the primitive");
#else
	REACH(accepted && is_es(jwt.alg), "ECDSA accepted");
	REACH(!accepted && is_es(jwt.alg) && vo_key_type == EVP_PKEY_EC && vo_verify_calls == 0, "irregular ECDSA length rejected before the primitive");
#endif
	REACH(!accepted && vo_verify_calls == 1, "rejected by the primitive");
	return 0;
}
#endif

#ifdef SIDE_SIGN_EC
int main(void)
{
	static const char str[] = "ab.cd";
	char *out = NULL;
	unsigned int len = 0;
	unsigned w, i;
	int r;
	long live0;

	setup();
	__CPROVER_assume(is_es(jwt.alg));
#ifdef ONLY_ALG
	__CPROVER_assume(jwt.alg == ONLY_ALG);
#endif
	w = (unsigned)((key.bits + 7) / 8);
	vo_width = w;
	live0 = vf_live;
	C18_BEGIN();
	r = jwt_openssl_ops.sign_sha_pem(&jwt, &out, &len, str, 5);
	C18_END();
	if (r == 0) {
		unsigned same = 1;
		unsigned rp = w - vo_dr_len, sp = w - vo_ds_len;
		PROP(jwt.error == 0 && out != NULL && len == 2 * w, "C05: ECDSA signature is exactly twice the field size");
		PROP(vo_sign_calls == 1 && vo_pkey == (const EVP_PKEY *)&pkey_obj && vo_md == want_md(jwt.alg),
		     "C05: signed once with the item's key object and the prescribed digest");
		PROP(vo_tbs == (const unsigned char *)str && vo_tbs_len == 5, "C05: signed exactly the bytes handed in");
		PROP(vo_key_type == EVP_PKEY_EC, "C02: ES* signs only with an EC key");
		PROP(vo_dr_len <= w && vo_ds_len <= w, "C05: integers wider than the field are refused");
		for (i = 0; i < VO_IMAX; i++) {
			if (i < w && out) {
				unsigned char er = i < rp ? 0 : vo_dr[i - rp];
				unsigned char es = i < sp ? 0 : vo_ds[i - sp];
				if ((unsigned char)out[i] != er || (unsigned char)out[w + i] != es)
					same = 0;
			}
		}
		PROP(same, "C05: r and s are written as fixed-width big-endian integers, left-padded with zeroes");
		PROP(vf_live == live0 + 1, "C06: only the signature handed back stays allocated");
	} else {
		PROP(jwt.error != 0, "C12: the OpenSSL provider's return value is the per-call error flag");
		PROP(vf_live == live0 || out != NULL, "C06: a failed signing leaks nothing");
	}
	REACH(r == 0 && vo_dr_len < w && vo_ds_len == w, "short r, full s");
	REACH(r == 0 && vo_dr_len == 0, "r = 0");
	REACH(r != 0 && vo_sign_calls == 1 && vo_dr_len == w + 1, "over-wide r refused");
	return 0;
}
#endif

#ifdef SIDE_SIGN
int main(void)
{
	static const char str[] = "ab.cd";
	static unsigned char okey[4];
	char *out = NULL;
	unsigned int len = 0;
	unsigned i;
	int r, hmac = nondet_bool();

	setup();
	if (hmac) {
		unsigned a = nondet_uint();
		__CPROVER_assume(a >= JWT_ALG_HS256 && a <= JWT_ALG_HS512);
		jwt.alg = (jwt_alg_t)a;
		key.kty = JWK_KEY_TYPE_OCT;
		key.provider = JWT_CRYPTO_OPS_ANY;
		key.oct.key = okey;
		key.oct.len = nondet_size_t();
		__CPROVER_assume(key.oct.len <= 0x7fffffff);
		C18_BEGIN();
		r = jwt_openssl_ops.sign_sha_hmac(&jwt, &out, &len, str, 5);
		C18_END();
		if (r == 0) {
			PROP(vo_hmac_calls == 1 && out != NULL, "C05: HMAC computed once");
			PROP(vo_hmac_md_owned, "C18: HMAC() writes into a caller-owned buffer (md == NULL selects OpenSSL's static, non-thread-safe result buffer)");
			PROP(vo_md == (jwt.alg == JWT_ALG_HS256 ? vo_sha256 : jwt.alg == JWT_ALG_HS384 ? vo_sha384 : vo_sha512),
			     "C05/C12: HMAC uses the hash the algorithm prescribes");
			PROP(len == (jwt.alg == JWT_ALG_HS256 ? 32u : jwt.alg == JWT_ALG_HS384 ? 48u : 64u), "C05: MAC has the hash output length");
			PROP(vo_hmac_key == okey && (size_t)vo_hmac_keylen == key.oct.len, "C05: HMAC keyed with exactly the item's octets");
			PROP(vo_tbs == (const unsigned char *)str && vo_tbs_len == 5, "C05: MAC over exactly the bytes handed in");
		} else {
			PROP(out == NULL, "C05: a failed HMAC hands back nothing");
		}
		REACH(r == 0 && jwt.alg == JWT_ALG_HS512, "HS512 MAC");
		return 0;
	}
	__CPROVER_assume(!is_es(jwt.alg));
	C18_BEGIN();
	r = jwt_openssl_ops.sign_sha_pem(&jwt, &out, &len, str, 5);
	C18_END();
	if (r == 0) {
		unsigned same = 1;
		PROP(jwt.error == 0 && vo_sign_calls == 1 && vo_pkey == (const EVP_PKEY *)&pkey_obj, "C05: signed once with the item's key object");
		PROP(vo_md == (jwt.alg == JWT_ALG_EDDSA ? vo_mdnull : want_md(jwt.alg)), "C05: the digest the algorithm prescribes is used");
		PROP(vo_tbs == (const unsigned char *)str && vo_tbs_len == 5, "C05: signed exactly the bytes handed in");
		PROP(out != NULL && len == vo_rawsig_len, "C12: deterministic algorithms hand back the primitive's output (length)");
		for (i = 0; i < VO_RAWMAX; i++)
			if (out && i < vo_rawsig_len && (unsigned char)out[i] != vo_rawsig[i])
				same = 0;
		PROP(same, "C12: deterministic algorithms hand back the primitive's output (bytes)");
		PROP(family_ok(jwt.alg, vo_key_type), "C02: an algorithm signs only with a key of its family");
		if (is_ps(jwt.alg))
			PROP(vo_pad_set && vo_pad == RSA_PKCS1_PSS_PADDING && vo_salt_set && vo_salt == RSA_PSS_SALTLEN_DIGEST,
			     "C05: PS* signs with PSS padding and salt length = digest length");
		else
			PROP(!vo_pad_set && !vo_salt_set, "C05: no padding override outside PS*");
	} else {
		PROP(jwt.error != 0, "C12: the OpenSSL provider's return value is the per-call error flag");
	}
	REACH(r == 0 && jwt.alg == JWT_ALG_PS512, "PS512 signed");
	REACH(r == 0 && jwt.alg == JWT_ALG_EDDSA && vo_key_type == EVP_PKEY_ED25519, "Ed25519 signed");
	REACH(r != 0 && vo_init_ok, "signing failed in the primitive");
	return 0;
}
#endif
