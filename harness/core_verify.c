/* Core-layer verify harness (DESIGN.md §5: C01 C02 C03 C04 C06 C09 C13 C14 C19 share it).
 *
 * Real code executed: jwt_checker_new/setkey/setcb/claim_set/claim_del/time_leeway/verify,
 * jwt_parse(+head/payload), jwt_verify_complete, __verify_config_post, __verify_claims,
 * jwt_verify_sig, _verify_sha_hmac, jwt_sign, __check_hmac, __check_key_bits,
 * jwt_base64uri_encode/decode, base64_encode/decode, jwt_strcmp, jwt_str_alg, setters/getters.
 * Models: M1 allocator, M2 jansson (parser havocked), M3 provider oracle, M6 env.
 *
 * Which assertion group is active is selected with -DPROP_Cxx so that each property's check
 * reports only its own assertions.
 */
#include <string.h>
#include "vf.h"
#include "ref.h"
#include "provider_stub.h"
#ifdef PROP_C18
#include "c18_gen.h"
#endif

#ifndef L
#define L 12
#endif

/* ------------------------------------------------------------------ symbolic inputs */
static char tok[L + 1];
static jwk_item_t key, key2;
static const jwk_item_t *prior_key;
static jwt_alg_t prior_alg;
static unsigned char octkey[4];

/* ------------------------------------------------------------------ parse monitor */
struct member_snap {
	int present;
	json_type type;
	long long ival;
	char s[VJ_SLEN + 1];
	int nul_inside;
};
struct tree_snap {
	int called;
	int is_null;
	json_type type;
	struct member_snap m[VJ_MAXM];
	const char *buf;                 /* the bytes libjwt handed to the parser */
	size_t len;
	unsigned char bytes[L];
};
static struct tree_snap hs, ps;

static const char *const hdr_alpha[] = { "alg", "typ", "x" };
#ifdef CLAIMS_FULL
static const char *const pay_alpha[] = { "exp", "nbf", "iss", "sub", "aud" };
#define PAY_N 5
#else
static const char *const pay_alpha[] = { "exp", "nbf", "x" };
#define PAY_N 3
#endif
enum { P_EXP = 0, P_NBF = 1, P_ISS = 2, P_SUB = 3, P_AUD = 4 };

static void snap_tree(struct tree_snap *t, const json_t *j, const char *buf, size_t len)
{
	unsigned k, i;

	t->called = 1;
	t->buf = buf;
	t->len = len;
	for (i = 0; i < L; i++)
		t->bytes[i] = (i < len) ? (unsigned char)buf[i] : 0;
	t->is_null = (j == NULL);
	if (!j)
		return;
	t->type = j->type;
	for (k = 0; k < VJ_MAXM; k++) {
		vj_t *c = VJ(j)->val[k];
		t->m[k].present = (j->type == JSON_OBJECT && c != NULL);
		if (t->m[k].present) {
			t->m[k].type = c->j.type;
			t->m[k].ival = c->ival;
			t->m[k].nul_inside = c->nul_inside;
			for (i = 0; i <= VJ_SLEN; i++)
				t->m[k].s[i] = c->s[i];
		}
	}
}

json_t *vf_parse(unsigned call_no, const char *buf, size_t len, size_t flags)
{
	json_t *r = NULL;
	unsigned shape = nondet_uint();

	__CPROVER_assert(call_no < 2, "harness: at most two parser calls per verify");
	/* json_loads without JSON_DECODE_ANY yields NULL, an object or an array; with it, any value */
	__CPROVER_assume(shape < 3 || (shape == 3 && (flags & JSON_DECODE_ANY)));
	if (shape == 3)
		r = vj_havoc_scalar_or_empty();
	else if (shape == 1)
		r = vj_havoc_array(1, 0);
	else if (shape == 2)
		r = (call_no == 0) ? vj_havoc_object(hdr_alpha, 3, 0) : vj_havoc_object(pay_alpha, PAY_N, 0);
	snap_tree(call_no == 0 ? &hs : &ps, r, buf, len);
	return r;
}

void vf_dump_hook(unsigned call_no, const json_t *tree, size_t flags, const char *text)
{
}

/* ------------------------------------------------------------------ callback model */
static int cb_ret, cb_setkey, cb_setalg;
static const jwk_item_t *cb_key;
static jwt_alg_t cb_alg;
static unsigned cb_calls;
#ifdef CB_MUTATES
/* C19: the callback edits the token object it is handed.  The verdict the rest of verification
 * WOULD reach on the unedited object is computed at the fork point, inside the callback, by
 * running the real jwt_verify_complete() on a deep clone; the oracle's choices come from a tape
 * that is rewound afterwards, so the real continuation sees the same oracle. */
#ifndef CB_OPS
#define CB_OPS 2
#endif
struct cb_op {
	unsigned kind;        /* see cb_apply */
	unsigned name;        /* 0 exp, 1 nbf, 2 iss */
	long ival;
	char sval[3];
};
static struct cb_op cb_prog[CB_OPS + 1];
static jwt_t cb_clone;
static int v_ref = -1;
static jwt_checker_t *the_chk;
static unsigned dot2;

/* one edit with a LITERAL member name (keeps the name lookups foldable in every branch) */
#define CB_EDIT(jwt, op, NAME) do {                                                        \
	jwt_value_t jv_;                                                                    \
	memset(&jv_, 0, sizeof(jv_));                                                       \
	jv_.name = NAME;                                                                    \
	switch ((op)->kind) {                                                               \
	case 0: jwt_claim_del(jwt, NAME); break;                  /* delete               */ \
	case 1: jv_.type = JWT_VALUE_INT; jv_.int_val = (op)->ival; jv_.replace = 1;        \
		jwt_claim_set(jwt, &jv_); break;                  /* replace by integer   */ \
	case 2: jv_.type = JWT_VALUE_STR; jv_.str_val = (op)->sval; jv_.replace = 1;        \
		jwt_claim_set(jwt, &jv_); break;                  /* replace by string    */ \
	case 3: jv_.type = JWT_VALUE_BOOL; jv_.bool_val = (int)((op)->ival & 1);            \
		jwt_claim_set(jwt, &jv_); break;                  /* add bool if missing  */ \
	default: break;                                                                     \
	}                                                                                   \
} while (0)

static void cb_apply(jwt_t *jwt, const struct cb_op *op)
{
	jwt_value_t jv;

	if (op->kind == 4) {                      /* delete every claim */
		jwt_claim_del(jwt, NULL);
		return;
	}
	if (op->kind == 5) {                      /* delete every header */
		jwt_header_del(jwt, NULL);
		return;
	}
	if (op->kind == 6) {                      /* overwrite the alg header */
		memset(&jv, 0, sizeof(jv));
		jv.type = JWT_VALUE_STR;
		jv.name = "alg";
		/* real algorithm names (a setter that reacted to the NAME would need one) or arbitrary text */
		switch ((unsigned long)op->ival & 7) {
		case 0: jv.str_val = "none"; break;
		case 1: jv.str_val = "HS256"; break;
		case 2: jv.str_val = "HS384"; break;
		case 3: jv.str_val = "RS256"; break;
		case 4: jv.str_val = "ES256"; break;
		case 5: jv.str_val = "EdDSA"; break;
		default: jv.str_val = op->sval; break;
		}
		jv.replace = 1;
		jwt_header_set(jwt, &jv);
		return;
	}
	switch (op->name) {
	case 0: CB_EDIT(jwt, op, "exp"); break;
	case 1: CB_EDIT(jwt, op, "nbf"); break;
	default: CB_EDIT(jwt, op, "iss"); break;
	}
}

static void cb_mutate(jwt_t *jwt, jwt_config_t *config)
{
	unsigned i;

	memset(&cb_clone, 0, sizeof(cb_clone));
	cb_clone.alg = jwt->alg;
	cb_clone.headers = vj_clone(jwt->headers);
	cb_clone.claims = vj_clone(jwt->claims);
	cb_clone.key = config->key;
	cb_clone.checker = the_chk;
#ifndef NO_CLONE
	jwt_verify_complete(&cb_clone, config, tok, dot2);
	v_ref = cb_clone.error;
#else
	v_ref = nondet_int();
#endif
	pv_tape_i = 0;
	for (i = 0; i < CB_OPS; i++)
		cb_apply(jwt, &cb_prog[i]);
}
#endif

static int the_cb(jwt_t *jwt, jwt_config_t *config)
{
	cb_calls++;
	if (cb_setkey)
		config->key = cb_key;
	if (cb_setalg)
		config->alg = cb_alg;
#ifdef CB_MUTATES
	cb_mutate(jwt, config);
#endif
	return cb_ret;
}

/* ------------------------------------------------------------------ helpers */
static void havoc_key(jwk_item_t *k)
{
	unsigned a = nondet_uint(), t = nondet_uint();

	memset(k, 0, sizeof(*k));
	__CPROVER_assume(a <= JWT_ALG_INVAL);        /* jwt_str_alg yields INVAL for unknown names */
	__CPROVER_assume(t >= JWK_KEY_TYPE_EC && t <= JWK_KEY_TYPE_OCT);
	k->alg = (jwt_alg_t)a;
	k->kty = (jwk_key_type_t)t;
	k->is_private_key = nondet_bool();
	k->bits = nondet_size_t();
	if (k->kty == JWK_KEY_TYPE_OCT) {
		/* import invariant (proved by the C07/C08 import harness): bits == 8 * oct.len */
		size_t n = nondet_size_t();
		__CPROVER_assume(n <= (((size_t)-1) >> 3));
		k->provider = JWT_CRYPTO_OPS_ANY;
		k->oct.key = octkey;
		k->oct.len = n;
		k->bits = n * 8;
	} else {
		/* asymmetric item: the union holds the provider handle; oct.len aliases zeroed bytes */
		k->provider = JWT_CRYPTO_OPS_OPENSSL;
		k->provider_data = nondet_ptr();
	}
}

#ifndef CB_MUTATES
static unsigned dot2;
#endif
static unsigned dot1, ndots, toklen;

static void scan_token(void)
{
	unsigned i;
	ndots = 0;
	toklen = L;
	dot1 = dot2 = L;
	for (i = 0; i < L; i++) {
		if (tok[i] == '\0') {
			toklen = i;
			break;
		}
		if (tok[i] == '.') {
			if (ndots == 0)
				dot1 = i;
			else if (ndots == 1)
				dot2 = i;
			ndots++;
		}
	}
}

#ifdef PROP_C18
static jwt_checker_t *chk2;
static jwt_checker_t chk2_before;
static jwk_item_t key_before, key2_before;
static unsigned char oct_before[4];
#endif

#ifdef PROP_C06_MEM
static long live_before, vj_before;
#endif

/* configuration chosen by the harness */
static int have_key, via_cb, have_cb;
static jwt_alg_t cfg_alg;
static int setkey_ret;

/* effective (post-callback) configuration, computed by the reference */
static int eff_have_key;
static const jwk_item_t *eff_key;
static jwt_alg_t eff_alg;


/* ------------------------------------------------------------------ C04: claim policy */
#ifdef CLAIMS_SETUP
#ifndef KOPS
#define KOPS 2
#endif
#define CLEN 3                       /* expected iss/sub/aud values: every ASCII string <= CLEN bytes */
struct ref_policy {
	int exp_on, nbf_on;
	long exp_lw, nbf_lw;
	int str_on[3];               /* iss, sub, aud */
	char str[3][CLEN + 1];
};
static struct ref_policy pol;
static const jwt_claims_t str_claims[3] = { JWT_CLAIM_ISS, JWT_CLAIM_SUB, JWT_CLAIM_AUD };

/* K symbolic configuration calls on the real checker, mirrored on the reference policy:
 * "the policy in force is always that of the most recent configuration calls" */
static void claims_setup(jwt_checker_t *chk)
{
	unsigned k, i;

	/* documented defaults after jwt_checker_new(): exp and nbf checked, zero leeway, no strings */
	pol.exp_on = pol.nbf_on = 1;
	pol.exp_lw = pol.nbf_lw = 0;
	for (k = 0; k < KOPS; k++) {
		unsigned op = nondet_uint(), which = nondet_uint();
		__CPROVER_assume(op < 3 && which < 3);
		if (op == 0) {                           /* jwt_checker_claim_set */
			char val[CLEN + 1];
			int r;
			for (i = 0; i < CLEN; i++) {
				val[i] = nondet_char();
				__CPROVER_assume(val[i] >= 0);   /* ASCII: jansson refuses invalid UTF-8 */
			}
			val[CLEN] = '\0';
			r = jwt_checker_claim_set(chk, str_claims[which], val);
			PROP(r == 0, "C04: claim_set of a valid value succeeds");
			pol.str_on[which] = 1;
			for (i = 0; i <= CLEN; i++)
				pol.str[which][i] = val[i];
			for (i = 0; i < CLEN; i++)             /* C-string semantics: cut at first NUL */
				if (pol.str[which][i] == '\0') {
					unsigned q;
					for (q = i; q <= CLEN; q++)
						pol.str[which][q] = '\0';
					break;
				}
		} else if (op == 1) {                    /* jwt_checker_claim_del */
			jwt_checker_claim_del(chk, str_claims[which]);
			pol.str_on[which] = 0;
		} else {                                 /* jwt_checker_time_leeway */
			long secs = nondet_long();
			int r;
			__CPROVER_assume(secs >= -(1L << 40) && secs <= (1L << 40));
			r = jwt_checker_time_leeway(chk, which == 0 ? JWT_CLAIM_EXP : JWT_CLAIM_NBF, secs);
			PROP(r == 0, "C04: time_leeway on exp/nbf succeeds");
			if (which == 0) {
				pol.exp_on = secs >= 0;
				pol.exp_lw = secs;
			} else {
				pol.nbf_on = secs >= 0;
				pol.nbf_lw = secs;
			}
		}
	}
	for (k = 0; k < 3; k++) {
		const char *g = jwt_checker_claim_get(chk, str_claims[k]);
		PROP((g != NULL) == (pol.str_on[k] != 0), "C04: claim_get reports whether an expectation is set");
		if (g && pol.str_on[k])
			PROP(strcmp(g, pol.str[k]) == 0, "C04: claim_get returns the most recent expectation");
	}
}

/* expected verdict of the claim checks, in 128-bit arithmetic */
static int ref_claims_ok(void)
{
	unsigned k, i;
	int obj = ps.called && !ps.is_null && ps.type == JSON_OBJECT;

	if (pol.exp_on && obj && ps.m[P_EXP].present) {
		if (ps.m[P_EXP].type != JSON_INTEGER)
			return 0;
		if (!((__int128)ps.m[P_EXP].ival > (__int128)vf_now - (__int128)pol.exp_lw))
			return 0;
	}
	if (pol.nbf_on && obj && ps.m[P_NBF].present) {
		if (ps.m[P_NBF].type != JSON_INTEGER)
			return 0;
		if (!((__int128)ps.m[P_NBF].ival <= (__int128)vf_now + (__int128)pol.nbf_lw))
			return 0;
	}
	for (k = 0; k < 3; k++) {
		if (!pol.str_on[k])
			continue;
		if (!obj || !ps.m[P_ISS + k].present || ps.m[P_ISS + k].type != JSON_STRING)
			return 0;
		/* a value that goes on after a NUL is not byte-for-byte equal to any expected C string */
		if (ps.m[P_ISS + k].nul_inside)
			return 0;
		for (i = 0; i <= VJ_SLEN; i++) {
			char e = i <= CLEN ? pol.str[k][i] : '\0';
			if (ps.m[P_ISS + k].s[i] != e)
				return 0;
			if (!e)
				break;
		}
	}
	return 1;
}
#endif

int main(void)
{
	jwt_checker_t *chk;
	unsigned i;
	int v;

	/* ---- phase 1: objects the harness owns are allocated before the typed jwt_t class ---- */
	vf_cls = VF_CLS_CHECKER;
	vf_install_alloc();
	chk = jwt_checker_new();
	__CPROVER_assume(chk != NULL);
	vf_cls = VF_CLS_JWT;

	for (i = 0; i < L; i++)
		tok[i] = nondet_char();
	tok[L] = '\0';
	scan_token();

	havoc_key(&key);
	havoc_key(&key2);

	/* ---- configuration: setkey route and/or callback route ---- */
	have_key = nondet_bool();
	{
		unsigned a = nondet_uint();
		__CPROVER_assume(a <= JWT_ALG_INVAL);
		cfg_alg = (jwt_alg_t)a;
	}
#ifdef PROP_C02_SETKEY
	/* setkey as ONE STEP from an arbitrary earlier pin (histories of setkey calls of any length):
	 * whatever key/algorithm an earlier call left on the checker */
	{
		unsigned pa = nondet_uint();
		__CPROVER_assume(pa < JWT_ALG_INVAL);
		prior_alg = (jwt_alg_t)pa;
		prior_key = nondet_bool() ? &key2 : NULL;
		chk->c.alg = prior_alg;
		chk->c.key = prior_key;
	}
#endif
	setkey_ret = jwt_checker_setkey(chk, cfg_alg, have_key ? &key : NULL);
#ifdef PROP_C02_SETKEY
	PROP((setkey_ret == 0) == ref_setkey_admits(cfg_alg, have_key, key.alg),
			 "C02: setkey admits exactly the documented table");
	PROP(setkey_ret == 0 || (chk->c.key == prior_key && chk->c.alg == prior_alg),
			 "C02/C03: a refused setkey leaves the previously pinned key and algorithm in place");
	PROP(setkey_ret != 0 || (chk->c.key == (have_key ? &key : NULL) && chk->c.alg == cfg_alg),
			 "C02: an admitted setkey stores exactly what was given");
	REACH(setkey_ret != 0 && prior_key != NULL, "setkey refused on a checker that already holds a key");
#endif
	if (setkey_ret) {
		/* the rest of the scenario continues from a checker without key and algorithm */
		chk->c.key = NULL;
		chk->c.alg = JWT_ALG_NONE;
		have_key = 0;
		cfg_alg = JWT_ALG_NONE;
		jwt_checker_error_clear(chk);
	}

	have_cb = nondet_bool();
	cb_ret = nondet_int();
	cb_setkey = nondet_bool();
	cb_setalg = nondet_bool();
	cb_key = nondet_bool() ? &key2 : NULL;
	{
		unsigned a = nondet_uint();
		__CPROVER_assume(a <= JWT_ALG_INVAL);
		cb_alg = (jwt_alg_t)a;
	}
#ifdef NO_CB
	have_cb = 0;
#endif
#ifdef PROP_C19
	/* C19's premise: the callback returns 0 and leaves key and algorithm untouched */
	have_cb = 1;
	cb_ret = 0;
	cb_setkey = cb_setalg = 0;
	the_chk = chk;
	for (i = 0; i < CB_OPS; i++) {
		struct cb_op *op = &cb_prog[i];
		op->kind = nondet_uint();
		op->name = nondet_uint();
		op->ival = nondet_long();
		op->sval[0] = nondet_char();
		op->sval[1] = nondet_char();
		op->sval[2] = '\0';
		__CPROVER_assume(op->kind < 7 && op->name < 3);
#ifdef CB_ONLY_KIND
		__CPROVER_assume(op->kind == CB_ONLY_KIND);
#endif
		__CPROVER_assume(op->sval[0] >= 0 && op->sval[1] >= 0);
	}
	for (i = 0; i < PV_TAPE_N; i++)
		pv_tape[i] = nondet_int();
#endif
	if (have_cb)
		__CPROVER_assume(jwt_checker_setcb(chk, the_cb, NULL) == 0);

	/* effective configuration per the documentation: the callback may replace key and alg */
	eff_have_key = have_key;
	eff_key = have_key ? &key : NULL;
	eff_alg = cfg_alg;
	if (have_cb) {
		if (cb_setkey) {
			eff_key = cb_key;
			eff_have_key = (cb_key != NULL);
		}
		if (cb_setalg)
			eff_alg = cb_alg;
	}

#ifdef CLAIMS_SETUP
	claims_setup(chk);
#endif
#ifdef DIRTY_PRESTATE
	chk->error = nondet_int();
	chk->error_msg[0] = nondet_char();
	chk->error_msg[1] = '\0';
#endif
	vf_now = nondet_long();
#ifdef CLOCK_RANGE
	__CPROVER_assume(vf_now >= 0 && vf_now <= (1L << 62));
#endif

#ifdef PROP_C18
	/* a second, unrelated checker and the shared key: must not be touched by the call */
	vf_cls = VF_CLS_CHECKER;
	chk2 = jwt_checker_new();
	__CPROVER_assume(chk2 != NULL);
	vf_cls = VF_CLS_JWT;
	jwt_checker_setkey(chk2, cfg_alg, have_key ? &key : NULL);
	chk2->error = nondet_int();
	chk2_before = *chk2;
	/* fields the library has no business writing get arbitrary values, so that a write of any
	 * constant is visible */
	key.error = nondet_int();
	key.error_msg[0] = nondet_char();
	key.use = (jwk_pub_key_use_t)nondet_uint();
	key.key_ops = (jwk_key_op_t)nondet_uint();
	key_before = key;
	key2_before = key2;
	for (i = 0; i < 4; i++)
		oct_before[i] = octkey[i] = nondet_uchar();
	c18_havoc();
	c18_snapshot();
#endif
#ifdef PROP_C06_MEM
	live_before = vf_live;
	vj_before = vj_live;
#endif
#ifdef FAULT_K
	/* C17: the FAULT_K-th allocation request made by the call under test returns NULL */
	vf_alloc_no = 0;                 /* concrete request index from here on */
	vf_fail_at = FAULT_K;
#endif
	/* ================================================================= the call */
	v = jwt_checker_verify(chk, tok);
	/* ================================================================= */

	{
		/* facts about the parsed header, from the parse monitor */
		int hdr_ok = hs.called && !hs.is_null && hs.type == JSON_OBJECT;
		int alg_is_str = hdr_ok && hs.m[0].present && hs.m[0].type == JSON_STRING;
		jwt_alg_t hdr_alg = alg_is_str ? ref_str_alg(hs.m[0].s) : JWT_ALG_INVAL;
		jwt_alg_t pinned = eff_have_key ? ref_pinned(eff_alg, 1, eff_key->alg) : eff_alg;
		int sig_empty = (ndots >= 2) && (tok[dot2 + 1] == '\0');
		int cb_ran = have_cb && cb_calls > 0;

		(void)hdr_alg; (void)pinned; (void)sig_empty; (void)cb_ran;

#ifdef PROP_C01
		if (v == 0 && eff_have_key) {
			PROP(ndots >= 2, "C01: accepted token has two dots");
			PROP(alg_is_str && hdr_alg < JWT_ALG_INVAL && hdr_alg != JWT_ALG_NONE,
					 "C01: accepted token names a real signing algorithm");
			PROP(pv_verify_calls + pv_hmac_calls + pv_pem_calls == 1,
					 "C01: exactly one oracle consultation");
			if (ref_alg_is_hmac(hdr_alg)) {
				char enc[((PV_MACLEN + 2) / 3) * 4 + 1];
				unsigned n, q, same = 1;
				PROP(pv_hmac_calls == 1 && pv_s_ok, "C01: HMAC recomputed successfully");
				PROP(pv_s_key == eff_key, "C01: MAC computed with the configured key");
				PROP(pv_s_alg == hdr_alg, "C01: MAC computed under the header algorithm");
				PROP(pv_s_str == tok && pv_s_len == dot2,
						 "C01: MAC computed over exactly header.payload of the token");
				n = ref_b64url_encode(pv_s_out, pv_s_outlen, PV_MACLEN, enc);
				for (q = 0; q < sizeof(enc) - 1; q++)
					if (q < n && (dot2 + 1 + q > L || tok[dot2 + 1 + q] != enc[q]))
						same = 0;
				PROP(same && dot2 + 1 + n <= L && tok[dot2 + 1 + n] == '\0',
				     "C01: third segment equals base64url(MAC) as a whole string");
			} else {
				unsigned char ref[PV_SIGMAX];
				int rn, q, same = 1;
				PROP(pv_verify_calls == 1 && pv_v_said_valid,
						 "C01: signature oracle consulted and said valid");
				PROP(pv_v_key == eff_key, "C01: verified with the configured key");
				PROP(pv_v_alg == hdr_alg, "C01: verified under the header algorithm");
				PROP(pv_v_head == tok && pv_v_head_len == dot2,
						 "C01: verified over exactly header.payload of the token");
				rn = ref_b64url_decode(tok + dot2 + 1, L, ref, PV_SIGMAX);
				PROP(rn > 0 && rn == pv_v_sig_len,
						 "C01: signature length equals the reference decoding of segment 3");
				for (q = 0; q < PV_SIGMAX; q++)
					if (q < rn && ref[q] != pv_v_sig[q])
						same = 0;
				PROP(same, "C01: signature bytes equal the reference decoding of segment 3");
			}
			/* the JSON that was parsed is the text that was authenticated: the parser is
			 * handed the decoded segment as a C string, i.e. up to its first NUL byte */
			{
				unsigned char ref[L];
				int rn, q, same = 1;
				rn = ref_b64url_decode(tok, dot1, ref, L);
				PROP(rn > 0 && hs.len <= (size_t)rn && (hs.len == (size_t)rn || ref[hs.len] == 0),
				     "C01: header JSON = decoded segment 1 (length)");
				for (q = 0; q < L; q++)
					if ((size_t)q < hs.len && ref[q] != hs.bytes[q])
						same = 0;
				PROP(same, "C01: header JSON = decoded segment 1 (bytes)");
				same = 1;
				rn = ref_b64url_decode(tok + dot1 + 1, dot2 - dot1 - 1, ref, L);
				PROP(ps.called && rn > 0 && ps.len <= (size_t)rn && (ps.len == (size_t)rn || ref[ps.len] == 0),
				     "C01: payload JSON = decoded segment 2 (length)");
				for (q = 0; q < L; q++)
					if ((size_t)q < ps.len && ref[q] != ps.bytes[q])
						same = 0;
				PROP(same, "C01: payload JSON = decoded segment 2 (bytes)");
			}
		}
		REACH(v == 0 && eff_have_key && ref_alg_is_hmac(hdr_alg), "v == 0 && eff_have_key && ref_alg_is_hmac(hdr_alg)");
		REACH(v == 0 && eff_have_key && ref_alg_is_asym(hdr_alg), "v == 0 && eff_have_key && ref_alg_is_asym(hdr_alg)");
		REACH(v != 0 && pv_verify_calls == 1, "v != 0 && pv_verify_calls == 1");
		REACH(v == 0 && have_cb && cb_setkey && eff_have_key, "v == 0 && have_cb && cb_setkey && eff_have_key");
#endif

#ifdef PROP_C02
		/* the pin is the APPLICATION's: verifying a token - whatever its callback selected for that
		 * one token - leaves the key and algorithm stored on the checker as setkey left them */
		PROP(chk->c.key == (have_key ? &key : NULL) && chk->c.alg == cfg_alg,
		     "C02: verification leaves the checker's pinned key and algorithm as the application set them");
		if (v == 0) {
			PROP(!have_cb || cb_ret == 0, "C02/C19: callback error is never accepted");
			PROP(ref_setkey_admits(eff_alg, eff_have_key, eff_have_key ? eff_key->alg : JWT_ALG_NONE),
					 "C02: effective key/alg pair is inside the documented setkey table");
			if (eff_have_key) {
				PROP(pinned != JWT_ALG_NONE && pinned < JWT_ALG_INVAL,
						 "C02: a key is never used without a pinned algorithm");
				PROP(hdr_alg == pinned,
						 "C02: accepted token's header alg equals the pinned algorithm");
			}
		}
		/* family: no oracle consultation with a key of another family */
		if (pv_hmac_calls)
			PROP(pv_s_key && pv_s_key->kty == JWK_KEY_TYPE_OCT,
					 "C02: HS* evaluated only with an oct key");
		/* RS/PS/ES/EdDSA: the provider is only ever handed an item that holds a provider key
		 * object (never an oct item's raw bytes); the family test proper (EVP_PKEY_id /
		 * pk algorithm vs. the algorithm) is the provider layer's and is proved there
		 * (queries C02.ossl.*, C01.gnutls.*) */
		if (pv_verify_calls)
			PROP(pv_v_key && pv_v_key->kty != JWK_KEY_TYPE_OCT && ref_alg_is_asym(pv_v_alg),
					 "C02: asymmetric algorithm never evaluated with an oct key");
		if (pv_hmac_calls + pv_verify_calls + pv_pem_calls)
			PROP(eff_have_key && pinned != JWT_ALG_NONE,
					 "C02: no crypto without key and pinned algorithm");
		REACH(v == 0 && eff_have_key && eff_alg != JWT_ALG_NONE && eff_key->alg != JWT_ALG_NONE, "v == 0 && eff_have_key && eff_alg != JWT_ALG_NONE && eff_key->alg != JWT_ALG_NONE");
		REACH(v == 0 && eff_have_key && eff_alg == JWT_ALG_NONE, "v == 0 && eff_have_key && eff_alg == JWT_ALG_NONE");
		REACH(v == 0 && eff_have_key && eff_key->alg == JWT_ALG_NONE, "v == 0 && eff_have_key && eff_key->alg == JWT_ALG_NONE");
		REACH(v == 0 && cb_ran && cb_setkey && cb_setalg, "v == 0 && cb_ran && cb_setkey && cb_setalg");
#endif

#ifdef PROP_C03
		if (v == 0) {
			if (eff_have_key) {
				PROP(!sig_empty, "C03: checker with a key never accepts an empty signature");
				PROP(hdr_alg != JWT_ALG_NONE, "C03: checker with a key never accepts alg none");
			} else {
				PROP(alg_is_str && hdr_alg == JWT_ALG_NONE,
						 "C03: checker without key accepts only alg exactly \"none\"");
				PROP(ndots >= 2 && sig_empty,
						 "C03: checker without key accepts only an empty third segment");
			}
		}
		REACH(v == 0 && !eff_have_key, "v == 0 && !eff_have_key");
		REACH(v == 0 && eff_have_key, "v == 0 && eff_have_key");
		REACH(v != 0 && !eff_have_key && sig_empty && hdr_ok, "v != 0 && !eff_have_key && sig_empty && hdr_ok");
#endif

#ifdef PROP_C04
		{
			int ok = ref_claims_ok();
			int wellformed = ndots >= 2 && hdr_ok && alg_is_str && hdr_alg < JWT_ALG_INVAL && ps.called && !ps.is_null;
			if (v == 0)
				PROP(ok, "C04: an accepted token satisfies every configured claim check");
			if (!ok)
				PROP(pv_verify_calls + pv_hmac_calls + pv_pem_calls == 0,
				     "C04: claims are evaluated before any signature work");
			/* unsigned tokens on a keyless checker: nothing but the claims can reject */
			if (wellformed && !eff_have_key && eff_alg == JWT_ALG_NONE && hdr_alg == JWT_ALG_NONE && sig_empty && !have_cb)
				PROP((v == 0) == ok, "C04: unsigned token accepted exactly when the claim checks pass");
			REACH(v == 0 && pol.exp_on && ps.m[P_EXP].present && ps.m[P_EXP].ival == vf_now - pol.exp_lw + 1, "exp accepted at the boundary second");
			REACH(v != 0 && wellformed && pol.exp_on && ps.m[P_EXP].present && ps.m[P_EXP].type == JSON_INTEGER && ps.m[P_EXP].ival == vf_now - pol.exp_lw, "exp rejected at the boundary second");
			REACH(v == 0 && pol.nbf_on && ps.m[P_NBF].present && ps.m[P_NBF].ival == vf_now + pol.nbf_lw, "nbf accepted at the boundary second");
			REACH(v == 0 && pol.str_on[0] && pol.str_on[2], "accepted with iss and aud expectations");
			REACH(v == 0 && !pol.exp_on && ps.m[P_EXP].present && ps.m[P_EXP].type == JSON_INTEGER && ps.m[P_EXP].ival < vf_now, "expired token accepted with exp checking off");
			REACH(v == 0 && eff_have_key && pol.str_on[1], "signed token accepted with sub expectation");
		}
#endif

#ifdef PROP_C19
		if (cb_calls) {
			PROP(v_ref >= 0 && (v != 0) == (v_ref != 0),
			     "C19: a callback that edits the token object does not change the verdict");
			REACH(v == 0 && v_ref == 0, "accepted with and without the edits");
			REACH(v != 0 && v_ref != 0 && pv_verify_calls + pv_hmac_calls == 0 && ps.called && !ps.is_null, "rejected by a claim check with and without the edits");
			REACH(v != 0 && cb_prog[0].kind == 0 && cb_prog[0].name == 0 && ps.m[P_EXP].present, "rejected although the callback deleted exp");
			REACH(v == 0 && cb_prog[0].kind == 1 && cb_prog[0].name == 0, "accepted although the callback replaced exp");
		} else {
			PROP(v != 0, "C19: verification cannot succeed without running the configured callback");
		}
#endif

#ifdef PROP_C19_ADMIT
		if (have_cb && cb_ret != 0)
			PROP(v != 0, "C19: a callback that returns non-zero always makes verification fail");
		if (v == 0 && cb_ran)
			PROP(ref_setkey_admits(eff_alg, eff_have_key, eff_have_key ? eff_key->alg : JWT_ALG_NONE),
			     "C19: key and algorithm selected by the callback obey the setkey admission rules");
		REACH(v == 0 && cb_ran && cb_setkey && cb_setalg && eff_have_key, "accepted with callback-selected key and alg");
		REACH(v != 0 && cb_ran && cb_ret == 0 && cb_setkey && !ref_setkey_admits(eff_alg, eff_have_key, eff_have_key ? eff_key->alg : JWT_ALG_NONE), "callback-selected pair refused");
		REACH(v != 0 && cb_ran && cb_ret != 0, "callback error rejects");
#endif

#ifdef PROP_C18
		c18_check();
		PROP(chk2->c.alg == chk2_before.c.alg && chk2->c.key == chk2_before.c.key && chk2->c.payload == chk2_before.c.payload &&
		     chk2->c.headers == chk2_before.c.headers && chk2->c.claims == chk2_before.c.claims && chk2->c.cb == chk2_before.c.cb &&
		     chk2->c.cb_ctx == chk2_before.c.cb_ctx && chk2->c.exp == chk2_before.c.exp && chk2->c.nbf == chk2_before.c.nbf &&
		     chk2->error == chk2_before.error && chk2->error_msg[0] == chk2_before.error_msg[0],
		     "C18: another checker object is not touched by the call");
		PROP(key.pem == key_before.pem && key.provider == key_before.provider && key.oct.key == key_before.oct.key &&
		     key.oct.len == key_before.oct.len && key.is_private_key == key_before.is_private_key && key.bits == key_before.bits &&
		     key.error == key_before.error && key.kty == key_before.kty && key.use == key_before.use && key.key_ops == key_before.key_ops &&
		     key.alg == key_before.alg && key.kid == key_before.kid && key.json == key_before.json &&
		     key.curve[0] == key_before.curve[0] && key.error_msg[0] == key_before.error_msg[0] &&
		     key.node.next == key_before.node.next && key.node.prev == key_before.node.prev,
		     "C18: the shared key item is only read");
		PROP(key2.alg == key2_before.alg && key2.bits == key2_before.bits && key2.error == key2_before.error &&
		     key2.oct.key == key2_before.oct.key && key2.oct.len == key2_before.oct.len && key2.error_msg[0] == key2_before.error_msg[0],
		     "C18: a key item selected by the callback is only read");
		PROP(octkey[0] == oct_before[0] && octkey[1] == oct_before[1] && octkey[2] == oct_before[2] && octkey[3] == oct_before[3],
		     "C18: shared key material is only read");
		REACH(v == 0 && eff_have_key, "accepting path with a key");
		REACH(v != 0 && pv_verify_calls == 1, "rejecting path after the oracle");
		REACH(v == 0 && pv_hmac_calls == 1, "accepting HMAC path");
#endif

#ifdef PROP_C17
		PROP((v != 0) == (jwt_checker_error(chk) != 0), "C17: under an allocation fault verify still reports failure through return value and flag");
		if (v != 0)
			PROP(jwt_checker_error_msg(chk)[0] != '\0', "C17: a failure caused by an allocation fault carries a message");
		REACHF(vf_faulted && v != 0, "fault injected and reported");
		REACHF(vf_faulted && v == 0, "fault injected, verification unaffected");
#endif

#ifdef PROP_C06_MEM
		/* per-call objects (token copy, decode buffers, the jwt_t and its JSON trees) are all
		 * released on every path: the live counters are back to their entry values.  CBMC's own
		 * bounds / pointer / double-free checks are active in this query (exact allocator). */
		PROP(vf_live == live_before && vj_live == vj_before, "C06: jwt_checker_verify releases every per-call allocation (no leak, nothing released twice)");
		REACH(v == 0, "accepted");
		REACH(v != 0 && ndots >= 2 && hs.called && hs.is_null, "rejected on a header that is not JSON");
#endif

#ifdef PROP_C06
		if (ndots < 2)
			PROP(v != 0, "C06: fewer than two dots is rejected");
		if (!hdr_ok || !alg_is_str || hdr_alg >= JWT_ALG_INVAL)
			PROP(v != 0, "C06: header that is not a JSON object with a known string alg is rejected");
		if (ndots >= 2 && ref_b64url_decode(tok, dot1, (unsigned char *)0, 0) < 0)
			PROP(v != 0 && !hs.called, "C06: undecodable first segment is rejected before parsing");
		if (ndots >= 2 && (!ps.called || ps.is_null))
			PROP(v != 0, "C06: second segment that is not a JSON document is rejected");
		REACH(v == 0, "v == 0");
		REACH(v != 0 && ndots >= 2 && hdr_ok && alg_is_str && ps.called && ps.is_null, "v != 0 && ndots >= 2 && hdr_ok && alg_is_str && ps.called && ps.is_null");
#endif

#ifdef PROP_C14
		PROP((v != 0) == (jwt_checker_error(chk) != 0),
				 "C14: verify returns non-zero exactly when the error flag is set");
		if (v != 0)
			PROP(jwt_checker_error_msg(chk)[0] != '\0', "C14: failure carries a non-empty message");
		else
			PROP(jwt_checker_error_msg(chk)[0] == '\0', "C14: success leaves an empty message");
		REACH(v == 0, "v == 0");
		REACH(v != 0 && cb_ran && cb_ret != 0, "v != 0 && cb_ran && cb_ret != 0");
		REACH(v != 0 && pv_verify_calls == 1, "v != 0 && pv_verify_calls == 1");
		REACH(v != 0 && ndots < 2, "v != 0 && ndots < 2");
#endif
	}
	return 0;
}
