/* C12 (ops half) - provider selection: jwt_set_crypto_ops, jwt_set_crypto_ops_t, jwt_init,
 * jwt_get_crypto_ops(_t) executed for real over the real provider table of jwt-crypto-ops.c
 * (the provider ops structs themselves are defined here with the real names and ids; the table
 * only looks at .name and .provider). */
#include <string.h>
#include <stdlib.h>
#include "vf.h"
#include "ref.h"

json_t *vf_parse(unsigned call_no, const char *buf, size_t len, size_t flags) { return NULL; }
void vf_dump_hook(unsigned call_no, const json_t *tree, size_t flags, const char *text) { }

struct jwt_crypto_ops jwt_openssl_ops = { .name = "openssl", .provider = JWT_CRYPTO_OPS_OPENSSL };
struct jwt_crypto_ops jwt_gnutls_ops = { .name = "gnutls", .provider = JWT_CRYPTO_OPS_GNUTLS };

#define NL 9
static char envbuf[NL + 1];
static int env_set;

char *getenv(const char *name)
{
	__CPROVER_assert(ref_streq(name, "JWT_CRYPTO"), "C12: only JWT_CRYPTO is consulted");
	return env_set ? envbuf : NULL;
}

void jwt_init(void);

int main(void)
{
	char name[NL + 1];
	unsigned i;
	struct jwt_crypto_ops *before;
	int r;

	for (i = 0; i < NL; i++) {
		name[i] = nondet_char();
		envbuf[i] = nondet_char();
	}
	name[NL] = envbuf[NL] = '\0';
	env_set = nondet_bool();

	/* arbitrary current provider */
	jwt_ops = nondet_bool() ? &jwt_openssl_ops : &jwt_gnutls_ops;
	before = jwt_ops;

#if defined(SIDE_NAME)
	r = jwt_set_crypto_ops(name);
	if (ref_streq(name, "openssl")) {
		PROP(r == 0 && jwt_ops == &jwt_openssl_ops, "C12: exact name openssl selects OpenSSL");
	} else if (ref_streq(name, "gnutls")) {
		PROP(r == 0 && jwt_ops == &jwt_gnutls_ops, "C12: exact name gnutls selects GnuTLS");
	} else {
		PROP(r != 0 && jwt_ops == before, "C12: any other name is refused and leaves the provider untouched");
	}
	PROP(ref_streq(jwt_get_crypto_ops(), jwt_ops->name) && jwt_get_crypto_ops_t() == jwt_ops->provider,
	     "C12: getters report the current provider");
	REACH(r == 0 && jwt_ops != before, "switched by name");
	REACH(r != 0 && name[0] == 'o' && name[6] == 'l' && name[7] != '\0', "near miss with a longer name refused");
	REACH(r != 0 && name[0] == 'O', "case variant refused");
#elif defined(SIDE_ID)
	{
		int id = nondet_int();
		r = jwt_set_crypto_ops_t((jwt_crypto_provider_t)id);
		if (id == JWT_CRYPTO_OPS_OPENSSL)
			PROP(r == 0 && jwt_ops == &jwt_openssl_ops, "C12: id OPENSSL selects OpenSSL");
		else if (id == JWT_CRYPTO_OPS_GNUTLS)
			PROP(r == 0 && jwt_ops == &jwt_gnutls_ops, "C12: id GNUTLS selects GnuTLS");
		else
			PROP(r != 0 && jwt_ops == before, "C12: any other id (NONE, MBEDTLS, ANY, out of range) is refused, provider untouched");
		REACH(r == 0 && jwt_ops != before, "switched by id");
		REACH(r != 0 && id == JWT_CRYPTO_OPS_ANY, "ANY refused");
	}
#else
	jwt_init();
	if (env_set && ref_streq(envbuf, "gnutls"))
		PROP(jwt_ops == &jwt_gnutls_ops, "C12: JWT_CRYPTO=gnutls selects GnuTLS at load");
	else
		PROP(jwt_ops == &jwt_openssl_ops, "C12: unset, empty, openssl or unknown JWT_CRYPTO selects the first compiled provider");
	REACH(jwt_ops == &jwt_gnutls_ops, "env selects gnutls");
	REACH(env_set && envbuf[0] != '\0' && !ref_streq(envbuf, "openssl") && jwt_ops == &jwt_openssl_ops, "unknown env falls back");
#endif
	return 0;
}
