/* Reference predicates written from the specifications (RFC 4648 §5, RFC 7518, include/jwt.h
 * documentation), independently of libjwt's code.  Harnesses compare the real code with these. */
#ifndef VF_REF_H
#define VF_REF_H

#include "vf.h"

/* ---------------- RFC 7518 algorithm names (exact, case-sensitive) ---------------- */
static inline int ref_streq(const char *a, const char *lit)
{
	unsigned i;
	for (i = 0;; i++) {
		if (a[i] != lit[i])
			return 0;
		if (!lit[i])
			return 1;
	}
}

static inline jwt_alg_t ref_str_alg(const char *s)
{
	if (!s) return JWT_ALG_INVAL;
	if (ref_streq(s, "none")) return JWT_ALG_NONE;
	if (ref_streq(s, "HS256")) return JWT_ALG_HS256;
	if (ref_streq(s, "HS384")) return JWT_ALG_HS384;
	if (ref_streq(s, "HS512")) return JWT_ALG_HS512;
	if (ref_streq(s, "RS256")) return JWT_ALG_RS256;
	if (ref_streq(s, "RS384")) return JWT_ALG_RS384;
	if (ref_streq(s, "RS512")) return JWT_ALG_RS512;
	if (ref_streq(s, "ES256")) return JWT_ALG_ES256;
	if (ref_streq(s, "ES384")) return JWT_ALG_ES384;
	if (ref_streq(s, "ES512")) return JWT_ALG_ES512;
	if (ref_streq(s, "PS256")) return JWT_ALG_PS256;
	if (ref_streq(s, "PS384")) return JWT_ALG_PS384;
	if (ref_streq(s, "PS512")) return JWT_ALG_PS512;
	if (ref_streq(s, "ES256K")) return JWT_ALG_ES256K;
	if (ref_streq(s, "EdDSA")) return JWT_ALG_EDDSA;
	return JWT_ALG_INVAL;
}

static inline int ref_alg_is_hmac(jwt_alg_t a)
{
	return a == JWT_ALG_HS256 || a == JWT_ALG_HS384 || a == JWT_ALG_HS512;
}

static inline int ref_alg_is_asym(jwt_alg_t a)
{
	return a > JWT_ALG_HS512 && a < JWT_ALG_INVAL;
}

/* key family an algorithm may be evaluated with (RFC 7518 §3.1 / RFC 8037) */
static inline jwk_key_type_t ref_alg_family(jwt_alg_t a)
{
	switch (a) {
	case JWT_ALG_HS256: case JWT_ALG_HS384: case JWT_ALG_HS512:
		return JWK_KEY_TYPE_OCT;
	case JWT_ALG_RS256: case JWT_ALG_RS384: case JWT_ALG_RS512:
	case JWT_ALG_PS256: case JWT_ALG_PS384: case JWT_ALG_PS512:
		return JWK_KEY_TYPE_RSA;
	case JWT_ALG_ES256: case JWT_ALG_ES384: case JWT_ALG_ES512: case JWT_ALG_ES256K:
		return JWK_KEY_TYPE_EC;
	case JWT_ALG_EDDSA:
		return JWK_KEY_TYPE_OKP;
	default:
		return JWK_KEY_TYPE_NONE;
	}
}

/* key-strength floor (property C09), on the mathematical value of the recorded size */
static inline int ref_floor_ok(jwt_alg_t a, size_t bits)
{
	switch (a) {
	case JWT_ALG_HS256: return bits >= 256;
	case JWT_ALG_HS384: return bits >= 384;
	case JWT_ALG_HS512: return bits >= 512;
	case JWT_ALG_RS256: case JWT_ALG_RS384: case JWT_ALG_RS512:
	case JWT_ALG_PS256: case JWT_ALG_PS384: case JWT_ALG_PS512:
		return bits >= 2048;
	case JWT_ALG_ES256: case JWT_ALG_ES256K: return bits == 256;
	case JWT_ALG_ES384: return bits == 384;
	case JWT_ALG_ES512: return bits == 521;
	case JWT_ALG_EDDSA: return bits == 256 || bits == 456;
	default: return 0;
	}
}

/* setkey admission table, include/jwt.h (jwt_builder_setkey / jwt_checker_setkey):
 *   alg none, key NULL              -> ok
 *   alg set,  key NULL              -> refused
 *   alg none, key without alg       -> refused
 *   alg set,  key without alg       -> ok
 *   alg none, key with alg          -> ok
 *   alg set,  key with alg          -> ok iff equal                                         */
static inline int ref_setkey_admits(jwt_alg_t alg, int have_key, jwt_alg_t key_alg)
{
	if (!have_key)
		return alg == JWT_ALG_NONE;
	if (key_alg == JWT_ALG_NONE)
		return alg != JWT_ALG_NONE;
	if (alg == JWT_ALG_NONE)
		return 1;
	return alg == key_alg;
}

/* the algorithm the application pinned: explicit alg, otherwise the key's own attribute */
static inline jwt_alg_t ref_pinned(jwt_alg_t alg, int have_key, jwt_alg_t key_alg)
{
	if (alg != JWT_ALG_NONE)
		return alg;
	return have_key ? key_alg : JWT_ALG_NONE;
}

/* ---------------- RFC 4648 §5 base64url, written bitwise ---------------- */
static inline int ref_b64_val(unsigned char c)   /* both alphabets, as libjwt documents */
{
	if (c >= 'A' && c <= 'Z') return c - 'A';
	if (c >= 'a' && c <= 'z') return c - 'a' + 26;
	if (c >= '0' && c <= '9') return c - '0' + 52;
	if (c == '-' || c == '+') return 62;
	if (c == '_' || c == '/') return 63;
	return -1;
}

static inline char ref_b64url_chr(unsigned v)
{
	if (v < 26) return 'A' + v;
	if (v < 52) return 'a' + (v - 26);
	if (v < 62) return '0' + (v - 52);
	return v == 62 ? '-' : '_';
}

/* Decode the NUL-terminated text s (at most maxn characters are looked at).  The accepted
 * language is the one property C11 states: characters before the first '=' must all be in the
 * base64/base64url alphabets, the total length must not be 1 modulo 4; the result is the
 * floor(6m/8) bytes encoded by the m characters before the first '='.  Returns the number of
 * bytes, or -1 when the text must be rejected (including the zero-byte result, which libjwt
 * documents as failure). */
static inline int ref_b64url_decode(const char *s, unsigned maxn, unsigned char *out, unsigned outcap)
{
	unsigned n = 0, m, i, nbytes;
	unsigned acc = 0, bits = 0, o = 0;
	int seen_pad = 0;

	m = 0;
	for (i = 0; i < maxn; i++) {
		if (!s[i])
			break;
		n++;
		if (s[i] == '=')
			seen_pad = 1;
		if (!seen_pad) {
			if (ref_b64_val((unsigned char)s[i]) < 0)
				return -1;
			m++;
		}
	}
	if ((n & 3) == 1)
		return -1;
	nbytes = (m * 6) / 8;
	if (nbytes == 0)
		return -1;
	for (i = 0; i < maxn; i++) {
		if (i >= m)
			break;
		acc = (acc << 6) | (unsigned)ref_b64_val((unsigned char)s[i]);
		bits += 6;
		if (bits >= 8) {
			bits -= 8;
			if (o < outcap)
				out[o] = (acc >> bits) & 0xff;
			o++;
		}
	}
	return (int)nbytes;
}

/* canonical unpadded encoding; returns the number of characters written (no terminator) */
static inline unsigned ref_b64url_encode(const unsigned char *in, unsigned n, unsigned maxn, char *out)
{
	unsigned i, o = 0;
	for (i = 0; i < maxn; i += 3) {
		unsigned b0, b1, b2, rem;
		if (i >= n)
			break;
		rem = n - i;
		b0 = in[i];
		b1 = rem > 1 ? in[i + 1] : 0;
		b2 = rem > 2 ? in[i + 2] : 0;
		out[o++] = ref_b64url_chr(b0 >> 2);
		out[o++] = ref_b64url_chr(((b0 & 3) << 4) | (b1 >> 4));
		if (rem > 1)
			out[o++] = ref_b64url_chr(((b1 & 15) << 2) | (b2 >> 6));
		if (rem > 2)
			out[o++] = ref_b64url_chr(b2 & 63);
	}
	return o;
}

#endif
