/* jwt_strcmp (libjwt/jwt-memory.c) - the comparator behind every exact-match decision of the
 * library: the recomputed HMAC against the token's third segment (C01), algorithm / kty / crv /
 * use names (C02, C03, C08), provider names (C12).  The real function is run on two arbitrary
 * NUL-terminated strings of up to N characters each and must answer 0 exactly when they are equal
 * (same length, same bytes).  Callers never pass NULL (the function has no NULL convention).
 * N is chosen above 256 (quick) and above 1024 (thorough) so that a result accumulated in a
 * narrower type, or lengths compared modulo a power of two, are inside the explored range. */
#include <string.h>
#include "vf.h"
#include "ref.h"

json_t *vf_parse(unsigned call_no, const char *buf, size_t len, size_t flags) { return NULL; }
void vf_dump_hook(unsigned call_no, const json_t *tree, size_t flags, const char *text) { }

#ifndef N
#define N 300
#endif

int jwt_strcmp(const char *str1, const char *str2);

int main(void)
{
	char a[N + 1], b[N + 1];
	unsigned i, la = N, lb = N;
	int equal = 1, seen_end = 0, r;

	a[N] = b[N] = '\0';
	/* reference verdict, computed without the library: first NUL of each, bytes before it */
	for (i = 0; i < N; i++) {
		if (!seen_end) {
			if (a[i] != b[i])
				equal = 0;
			if (a[i] == '\0' || b[i] == '\0')
				seen_end = 1;
		}
	}
	for (i = N; i > 0; i--) {
		if (a[i - 1] == '\0')
			la = i - 1;
		if (b[i - 1] == '\0')
			lb = i - 1;
	}
	r = jwt_strcmp(a, b);
	PROP((r == 0) == (equal != 0), "C01: jwt_strcmp answers 0 exactly for equal strings");
	REACH(r == 0 && la == N, "equal strings of the full length");
	REACH(r != 0 && la + 256 == lb && la >= 3 && a[0] == b[0] && a[1] == b[1] && a[la - 1] == b[la - 1],
	      "proper prefix, 256 characters shorter, refused");
	REACH(r != 0 && la == lb && la > 256 && a[0] == b[0], "same length, different bytes refused");
	return 0;
}
