/* C15 - header/claim set/get/delete as a typed map: ONE arbitrary operation from an ARBITRARY
 * pre-state object (one inductive step covers operation sequences of any length), on the builder
 * wrappers and on the jwt_t wrappers, headers and claims, compared with a reference map.
 *
 * Real code: jwt_builder_{header,claim}_{set,get,del}, jwt_{header,claim}_{set,get,del},
 * __run_it (both), __setter, __getter, __deleter, jwt_set_*, jwt_get_*, jwt_obj_check.
 * Models: M1, M2 (the container itself; JSON text -> havocked parse result), M6.
 */
#include <string.h>
#include "vf.h"
#include "ref.h"

/* -DNESTED: object- and array-valued members carry members of their own (one nested level), on
 * both sides of a JSON set: what distinguishes "overwrite the member" from "merge into it" */
#ifdef NESTED
#define NEST_DEPTH 1
#else
#define NEST_DEPTH 0
#endif
static const char *const alpha[] = { "a", "b", "c" };
static const char *const palpha[] = { "a", "z" };
static json_t *parsed;            /* what "the parser" yields for the JSON text handed in */
static int parsed_called;

json_t *vf_parse(unsigned call_no, const char *buf, size_t len, size_t flags)
{
	unsigned shape = nondet_uint();
	__CPROVER_assume(shape < 3);
	parsed_called = 1;
	__CPROVER_assert((flags & JSON_DECODE_ANY) == 0, "C15: JSON values must be objects or arrays (no JSON_DECODE_ANY)");
	/* without JSON_DECODE_ANY the parser yields NULL (malformed or scalar), an array or an object */
	if (shape == 1)
		parsed = vj_havoc_array(2, 0);
	else if (shape == 2)
		parsed = vj_havoc_object(palpha, 2, NEST_DEPTH);
	else
		parsed = NULL;
	/* keep a reference for the oracle: the real code consumes its own reference */
	if (parsed)
		json_incref(parsed);
	return parsed;
}

void vf_dump_hook(unsigned call_no, const json_t *tree, size_t flags, const char *text) { }

#if !defined(ONLY_OP) || ONLY_OP == 0
#define REACH_OP0(c, m) REACH(c, m)
#else
#define REACH_OP0(c, m) ((void)0)
#endif
#if !defined(ONLY_OP) || ONLY_OP == 1
#define REACH_OP1(c, m) REACH(c, m)
#else
#define REACH_OP1(c, m) ((void)0)
#endif
#if !defined(ONLY_OP) || ONLY_OP == 2
#define REACH_OP2(c, m) REACH(c, m)
#else
#define REACH_OP2(c, m) ((void)0)
#endif

static const char *pick_name(unsigned sel)
{
	switch (sel) {
	case 0: return NULL;
	case 1: return "";
	case 2: return "a";
	case 3: return "b";
	default: return "z";
	}
}

int main(void)
{
	jwt_builder_t *b;
	static jwt_t tok;
	json_t *pre, *expect, **slot;
	unsigned target = nondet_uint(), opk = nondet_uint(), ty = nondet_uint(), nsel = nondet_uint();
	const char *name;
	jwt_value_t jv;
	jwt_value_error_t r = JWT_VALUE_ERR_NONE;
	char sval[3];
	int name_ok;
	json_t *existing;
	size_t pre_size;
	int pre_has_a;
	json_type ex_type, ex_a_type;
	unsigned ex_a_members;

	vf_cls = VF_CLS_BUILDER;
	vf_install_alloc();
	b = jwt_builder_new();
	__CPROVER_assume(b != NULL);
	vf_cls = 0;

	__CPROVER_assume(target < 4 && opk < 3 && ty <= JWT_VALUE_INVALID && nsel < 5);
#ifdef ONLY_OP
	__CPROVER_assume(opk == ONLY_OP);
#endif
#ifdef ONLY_TARGET
	__CPROVER_assume(target == ONLY_TARGET);
#endif
	/* arbitrary pre-state: any subset of {a,b,c} present with values of any JSON type */
	pre = vj_havoc_object(alpha, 3, NEST_DEPTH);
#ifdef NESTED
	__CPROVER_assume(ty == JWT_VALUE_JSON);
#endif
	memset(&tok, 0, sizeof(tok));
	tok.headers = json_object();
	tok.claims = json_object();
	__CPROVER_assume(tok.headers && tok.claims);
	switch (target) {
	case 0: slot = &b->c.headers; break;
	case 1: slot = &b->c.payload; break;
	case 2: slot = &tok.headers; break;
	default: slot = &tok.claims; break;
	}
	json_decref(*slot);
	*slot = pre;
	expect = vj_clone(pre);
	name = pick_name(nsel);
	name_ok = name != NULL && name[0] != '\0';
	existing = name_ok ? json_object_get(expect, name) : NULL;
	pre_size = json_object_size(expect);
	pre_has_a = json_object_get(expect, "a") != NULL;
	ex_type = existing ? existing->type : JSON_NULL;
	ex_a_type = pre_has_a ? json_object_get(expect, "a")->type : JSON_NULL;
	ex_a_members = pre_has_a ? VJ(json_object_get(expect, "a"))->nk : 0;

	memset(&jv, 0, sizeof(jv));
	jv.type = (jwt_value_type_t)ty;
	jv.name = name;
	jv.replace = nondet_bool();
	jv.pretty = nondet_bool();
	sval[0] = nondet_char();
	sval[1] = nondet_char();
	sval[2] = '\0';
	__CPROVER_assume(sval[0] >= 0 && sval[1] >= 0);     /* ASCII: jansson refuses invalid UTF-8 */
	jv.error = (jwt_value_error_t)nondet_uint();         /* stale value from an earlier call */

	if (opk == 0) {
		/* ------------------------------------------------------------ set */
		long ival = nondet_long();
		int bval = nondet_int();
		int str_null = nondet_bool();
		if (ty == JWT_VALUE_INT)
			jv.int_val = ival;
		else if (ty == JWT_VALUE_STR)
			jv.str_val = str_null ? NULL : sval;
		else if (ty == JWT_VALUE_BOOL)
			jv.bool_val = bval;
		else if (ty == JWT_VALUE_JSON)
			jv.json_val = "{}";                  /* text is opaque: the parse result is havocked */
		switch (target) {
		case 0: r = jwt_builder_header_set(b, &jv); break;
		case 1: r = jwt_builder_claim_set(b, &jv); break;
		case 2: r = jwt_header_set(&tok, &jv); break;
		default: r = jwt_claim_set(&tok, &jv); break;
		}
		PROP(r == jv.error, "C15: set returns the code it stores in value->error");

		if (ty == JWT_VALUE_INT || ty == JWT_VALUE_STR || ty == JWT_VALUE_BOOL) {
			if (!name_ok || (ty == JWT_VALUE_STR && str_null)) {
				PROP(r == JWT_VALUE_ERR_INVALID, "C15: scalar with an empty or absent name (or no value) is INVALID");
			} else if (existing && !jv.replace) {
				PROP(r == JWT_VALUE_ERR_EXIST, "C15: set without replace on an existing name is EXIST");
			} else {
				json_t *nv = ty == JWT_VALUE_INT ? json_integer(ival) :
					     ty == JWT_VALUE_STR ? json_string(sval) : json_boolean(bval);
				PROP(r == JWT_VALUE_ERR_NONE, "C15: set on a new name, or with replace, succeeds");
				json_object_set_new(expect, name, nv);
			}
		} else if (ty == JWT_VALUE_JSON) {
			PROP(parsed_called, "C15: the JSON text is parsed");
			if (!parsed) {
				PROP(r == JWT_VALUE_ERR_INVALID, "C15: malformed or scalar JSON text is INVALID");
			} else if (!name_ok) {
				if (parsed->type != JSON_OBJECT) {
					PROP(r == JWT_VALUE_ERR_INVALID, "C15: whole-object set of a JSON array is INVALID");
				} else {
					PROP(r == JWT_VALUE_ERR_NONE, "C15: whole-object JSON set succeeds");
					if (jv.replace)
						json_object_update(expect, parsed);         /* all members */
					else
						json_object_update_missing(expect, parsed); /* missing only */
				}
			} else if (existing && !jv.replace) {
				PROP(r == JWT_VALUE_ERR_EXIST, "C15: JSON set without replace on an existing name is EXIST");
			} else {
				PROP(r == JWT_VALUE_ERR_NONE, "C15: JSON set on a new name, or with replace, succeeds");
				json_object_set_new(expect, name, json_incref(parsed));
			}
		} else {
			PROP(r == JWT_VALUE_ERR_INVALID, "C15: an unknown value type is INVALID");
		}
		PROP(vj_equal(expect, *slot), "C15: after set the object equals the reference map (a failed set changes nothing)");
#ifdef NESTED
		REACH_OP0(r == JWT_VALUE_ERR_NONE && !name_ok && jv.replace && pre_has_a && ex_a_type == JSON_OBJECT && ex_a_members > 0 &&
			  parsed && json_object_get(parsed, "a") && json_object_get(parsed, "a")->type == JSON_OBJECT,
			  "whole-object replace over an object-valued member that has members");
#else
		REACH_OP0(r == JWT_VALUE_ERR_EXIST, "EXIST");
		REACH_OP0(r == JWT_VALUE_ERR_NONE && existing && ty == JWT_VALUE_INT && ex_type == JSON_STRING, "replace across types");
		REACH_OP0(r == JWT_VALUE_ERR_NONE && ty == JWT_VALUE_JSON && !name_ok && !jv.replace && pre_has_a, "merge missing-only over an existing member");
		REACH_OP0(r == JWT_VALUE_ERR_INVALID && ty == JWT_VALUE_JSON && parsed && parsed->type == JSON_ARRAY, "array refused for whole-object set");
#endif
	} else if (opk == 1) {
		/* ------------------------------------------------------------ get */
		switch (target) {
		case 0: r = jwt_builder_header_get(b, &jv); break;
		case 1: r = jwt_builder_claim_get(b, &jv); break;
		case 2: r = jwt_header_get(&tok, &jv); break;
		default: r = jwt_claim_get(&tok, &jv); break;
		}
		PROP(r == jv.error, "C15: get returns the code it stores in value->error");
		if (ty == JWT_VALUE_INT || ty == JWT_VALUE_STR || ty == JWT_VALUE_BOOL) {
			if (!name_ok)
				PROP(r == JWT_VALUE_ERR_INVALID, "C15: get with an empty or absent name is INVALID");
			else if (!existing)
				PROP(r == JWT_VALUE_ERR_NOEXIST, "C15: get of a missing name is NOEXIST");
			else if (ty == JWT_VALUE_INT)
				PROP(existing->type == JSON_INTEGER ? (r == JWT_VALUE_ERR_NONE && jv.int_val == (long)VJ(existing)->ival)
								    : r == JWT_VALUE_ERR_TYPE, "C15: integer get returns the stored value or TYPE");
			else if (ty == JWT_VALUE_STR)
				PROP(existing->type == JSON_STRING ? (r == JWT_VALUE_ERR_NONE && jv.str_val && strcmp(jv.str_val, VJ(existing)->s) == 0)
								   : r == JWT_VALUE_ERR_TYPE, "C15: string get returns the stored value or TYPE");
			else
				PROP((existing->type == JSON_TRUE || existing->type == JSON_FALSE)
					? (r == JWT_VALUE_ERR_NONE && jv.bool_val == (existing->type == JSON_TRUE))
					: r == JWT_VALUE_ERR_TYPE, "C15: boolean get returns the stored value or TYPE");
		} else if (ty == JWT_VALUE_JSON) {
			if (name_ok && !existing)
				PROP(r == JWT_VALUE_ERR_NOEXIST, "C15: JSON get of a missing name is NOEXIST");
			else
				PROP((r == JWT_VALUE_ERR_NONE && jv.json_val != NULL) || r == JWT_VALUE_ERR_INVALID,
				     "C15: JSON get yields text (or INVALID when serialisation fails)");
		} else {
			PROP(r == JWT_VALUE_ERR_INVALID, "C15: an unknown value type is INVALID");
		}
		PROP(vj_equal(expect, *slot), "C15: get changes nothing");
		REACH_OP1(r == JWT_VALUE_ERR_TYPE, "TYPE");
		REACH_OP1(r == JWT_VALUE_ERR_NOEXIST, "NOEXIST");
		REACH_OP1(r == JWT_VALUE_ERR_NONE && ty == JWT_VALUE_BOOL, "bool read back");
	} else {
		/* ------------------------------------------------------------ delete */
		switch (target) {
		case 0: r = jwt_builder_header_del(b, name); break;
		case 1: r = jwt_builder_claim_del(b, name); break;
		case 2: r = jwt_header_del(&tok, name); break;
		default: r = jwt_claim_del(&tok, name); break;
		}
		PROP(r == JWT_VALUE_ERR_NONE, "C15: delete reports success");
		if (name_ok)
			json_object_del(expect, name);
		else
			json_object_clear(expect);
		PROP(vj_equal(expect, *slot), "C15: delete removes exactly the named member, or everything without a name");
		REACH_OP2(!name_ok && pre_size == 3, "delete-all on three members");
		REACH_OP2(name_ok && existing, "delete of an existing member");
	}
	return 0;
}
