/* C20 - tools/jwt-generate.c: the real main() (renamed tool_main by the translation pipeline) over
 * stubs of the libjwt API it calls, the getopt_long model and the exit() model.  One query per
 * option documented in the tool's own usage() text (parsed from the source on every run) and per
 * spelling: a well-formed invocation is not refused, a token is generated and printed, and the
 * option's argument reaches the library unchanged - in particular -a/-k hand the library the same
 * (algorithm, key file) pair that jwt-verify hands it for the same spelling (query
 * C20.opts.verify.*), which is what "jwt-generate prints a token that jwt-verify accepts with the
 * same key file" reduces to at the tool level (the rest is C05). */
#include <string.h>
#include <stdio.h>
#include <stdlib.h>
#include <getopt.h>
#include "vf.h"
#include "ref.h"

json_t *vf_parse(unsigned call_no, const char *buf, size_t len, size_t flags) { return NULL; }
void vf_dump_hook(unsigned call_no, const json_t *tree, size_t flags, const char *text) { }

int tool_main(int argc, char *argv[]);

static jwt_builder_t the_builder;
static jwk_set_t the_set;
static jwk_item_t the_item;
static jwt_alg_t item_alg, seen_alg = JWT_ALG_INVAL;
static const char *seen_keyfile, *seen_json;
static unsigned setkey_calls, generate_calls, claim_calls;
static int iat_arg = -1, cb_set;
static jwt_value_t seen_claim;
static char seen_cname[8], seen_cstr[8];
static char token_text[] = "h.p.s";

jwt_builder_t *jwt_builder_new(void) { return &the_builder; }
void jwt_builder_free(jwt_builder_t *b) { }
int jwt_builder_error(const jwt_builder_t *b) { return 0; }
const char *jwt_builder_error_msg(const jwt_builder_t *b) { return "m"; }
int jwt_builder_enable_iat(jwt_builder_t *b, int enable) { iat_arg = enable; return 1; }
int jwt_builder_setcb(jwt_builder_t *b, jwt_callback_t cb, void *ctx) { cb_set = cb != NULL; return 0; }

int jwt_builder_setkey(jwt_builder_t *b, const jwt_alg_t alg, const jwk_item_t *key)
{
	setkey_calls++;
	seen_alg = alg;
	__CPROVER_assert(key == &the_item, "C20: the key handed to the library is the first key of the file");
	return !ref_setkey_admits(alg, 1, item_alg);
}

jwt_value_error_t jwt_builder_claim_set(jwt_builder_t *b, jwt_value_t *value)
{
	unsigned i;
	claim_calls++;
	seen_claim = *value;
	if (value->type == JWT_VALUE_JSON) {
		seen_json = value->json_val;
		return JWT_VALUE_ERR_NONE;
	}
	for (i = 0; i < 7 && value->name && value->name[i]; i++)
		seen_cname[i] = value->name[i];
	seen_cname[i] = '\0';
	if (value->type == JWT_VALUE_STR) {
		for (i = 0; i < 7 && value->str_val && value->str_val[i]; i++)
			seen_cstr[i] = value->str_val[i];
		seen_cstr[i] = '\0';
	}
	return JWT_VALUE_ERR_NONE;
}

char *jwt_builder_generate(jwt_builder_t *b)
{
	char *t = malloc(8);
	generate_calls++;
	__CPROVER_assume(t != NULL);
	strcpy(t, token_text);
	return t;
}

jwk_set_t *jwks_create_fromfile(const char *file_name) { seen_keyfile = file_name; return &the_set; }
void jwks_free(jwk_set_t *s) { }
int jwks_error(const jwk_set_t *s) { return 0; }
const char *jwks_error_msg(const jwk_set_t *s) { return ""; }
const jwk_item_t *jwks_item_get(const jwk_set_t *s, size_t index) { return index == 0 ? &the_item : NULL; }
int jwks_item_error(const jwk_item_t *item) { return 0; }
const char *jwks_item_error_msg(const jwk_item_t *item) { return ""; }
jwt_alg_t jwks_item_alg(const jwk_item_t *item) { return item_alg; }
jwt_value_error_t jwt_header_get(jwt_t *jwt, jwt_value_t *value) { return JWT_VALUE_ERR_INVALID; }
jwt_value_error_t jwt_claim_get(jwt_t *jwt, jwt_value_t *value) { return JWT_VALUE_ERR_INVALID; }

/* ------------------------------------------------------------------ environment */
const char *__progname = "jwt-generate";
static int exited, exit_status;
static void at_exit_check(void);

void exit(int status)
{
	exited = 1;
	exit_status = status & 0377;
	at_exit_check();
	__CPROVER_assume(0);
}

/* strtok / strtol for the forms the tool uses (-c t:k=v) */
static char *tok_next;
char *strtok(char *s, const char *delim)
{
	char *start;
	if (s)
		tok_next = s;
	if (!tok_next)
		return NULL;
	while (*tok_next && strchr(delim, *tok_next))
		tok_next++;
	if (!*tok_next)
		return NULL;
	start = tok_next;
	while (*tok_next && !strchr(delim, *tok_next))
		tok_next++;
	if (*tok_next) {
		*tok_next = '\0';
		tok_next++;
	}
	return start;
}

long strtol(const char *nptr, char **endptr, int base)
{
	long v = 0;
	unsigned i;
	for (i = 0; i < 6 && nptr[i] >= '0' && nptr[i] <= '9'; i++)
		v = v * 10 + (nptr[i] - '0');
	return v;
}

#include "c20_generate_opts.h"
static unsigned which, spelling;
static char argbuf[16], wordbuf[32];
static const char keyfile[] = "k.json";

static const char *opt_arg(char sc)
{
	switch (sc) {
	case 'a': return "ES256";
	case 'k': return keyfile;
	case 'c': return "i:n=42";
	case 'j': return "{}";
	default: return "cat";
	}
}

static void at_exit_check(void)
{
	const struct c20_opt *o = &c20_opts[which];
	REACH(1, "tool ran to completion");
	if (o->shortc == 'h' || o->shortc == 'l') {
		PROP(exit_status == 0, "C20: -h/--help and -l/--list exit successfully in every spelling");
		return;
	}
	PROP(exit_status == 0 && generate_calls == 1, "C20: a well-formed invocation with a documented option generates a token");
	if (o->shortc == 'a')
		PROP(setkey_calls == 1 && seen_alg == JWT_ALG_ES256, "C20: the algorithm given with -a/--algorithm reaches the library");
	if (o->shortc == 'k' || o->shortc == 'a')
		PROP(seen_keyfile && strcmp(seen_keyfile, keyfile) == 0, "C20: the key file given with -k/--key reaches the library");
	if (o->shortc == 'n')
		PROP(iat_arg == 0, "C20: -n/--no-iat disables iat");
	else
		PROP(iat_arg == 1, "C20: iat stays enabled unless -n is given");
	if (o->shortc == 'c')
		PROP(claim_calls == 1 && seen_claim.type == JWT_VALUE_INT && seen_claim.int_val == 42 && ref_streq(seen_cname, "n"),
		     "C20: -c/--claim i:n=42 sets the integer claim n = 42");
	if (o->shortc == 'j')
		PROP(claim_calls == 1 && seen_claim.type == JWT_VALUE_JSON && seen_json && ref_streq(seen_json, "{}"),
		     "C20: -j/--json hands its argument to the library as the claims JSON");
	if (o->shortc == 'v')
		PROP(cb_set, "C20: -v/--verbose installs the printing callback");
}

static unsigned put(char *dst, const char *src)
{
	unsigned i;
	for (i = 0; src[i]; i++)
		dst[i] = src[i];
	dst[i] = '\0';
	return i;
}

int main(void)
{
	static char *argv[10];
	static char a_prog[] = "jwt-generate", kshort[] = "-k", kfile[] = "k.json";
	int argc = 0, r;
	const struct c20_opt *o;
	const char *arg;
	unsigned n;

	which = WHICH;
	spelling = SPELLING;
	o = &c20_opts[which];
	item_alg = (o->shortc == 'a') ? JWT_ALG_NONE : JWT_ALG_ES256;
	arg = opt_arg(o->shortc);
	argv[argc++] = a_prog;
	if (o->shortc == 'a') {              /* an algorithm needs a key */
		argv[argc++] = kshort;
		argv[argc++] = kfile;
	}
	switch (spelling) {
	case 0:
		wordbuf[0] = '-'; wordbuf[1] = o->shortc; wordbuf[2] = '\0';
		if (o->has_arg)
			put(wordbuf + 2, arg);
		argv[argc++] = wordbuf;
		break;
	case 1:
		wordbuf[0] = '-'; wordbuf[1] = o->shortc; wordbuf[2] = '\0';
		argv[argc++] = wordbuf;
		put(argbuf, arg);
		argv[argc++] = argbuf;
		break;
	case 2:
		wordbuf[0] = wordbuf[1] = '-';
		n = 2 + put(wordbuf + 2, o->longn);
		if (o->has_arg) {
			wordbuf[n++] = '=';
			put(wordbuf + n, arg);
		}
		argv[argc++] = wordbuf;
		break;
	default:
		wordbuf[0] = wordbuf[1] = '-';
		put(wordbuf + 2, o->longn);
		argv[argc++] = wordbuf;
		put(argbuf, arg);
		argv[argc++] = argbuf;
		break;
	}
	argv[argc] = NULL;
	r = tool_main(argc, argv);
	exit(r);                               /* jwt-generate returns from main on success */
	return 0;
}
