/* Core-layer builder harness (DESIGN.md §5: C10, builder halves of C02 C03 C13 C14).
 *
 * Real code executed: jwt_builder_new/setkey/setcb/enable_iat/time_offset/header_set/claim_set/
 * generate, __setkey_check, jwt_head_setup, jwt_encode, jwt_encode_str, jwt_sign, __check_hmac,
 * __check_key_bits, jwt_base64uri_encode, base64_encode, jwt_alg_str, setters.
 * Models: M1 allocator, M2 jansson (json_dumps = arbitrary text, observed by vf_dump_hook),
 * M3 provider oracle (sign side), M6 env (time(), exact sprintf "%s.%s.%s").
 */
#include <string.h>
#include "vf.h"
#include "ref.h"
#include "provider_stub.h"
#ifdef PROP_C18
#include "c18b_gen.h"
static jwt_builder_t *b2;
static jwt_builder_t b2_before;
static jwk_item_t key_before;
static unsigned char oct_before[4];
#endif

json_t *vf_parse(unsigned call_no, const char *buf, size_t len, size_t flags) { return NULL; }

static jwk_item_t key, key2;
static const jwk_item_t *prior_key;
static jwt_alg_t prior_alg;
static unsigned char octkey[4];

/* ------------------------------------------------------------------ dump monitor */
struct msnap { int present; json_type type; long long ival; char s[VJ_SLEN + 1]; };
struct dsnap {
	int called;
	char text[VJ_DUMPLEN + 1];
	unsigned len;
	struct msnap alg, typ, hx;         /* header members                 */
	struct msnap iat, nbf, exp, cx;    /* payload members                */
};
static struct dsnap dh, dp;

static void snap_member(struct msnap *m, const json_t *tree, const char *name)
{
	const json_t *c = json_object_get(tree, name);
	unsigned i;

	m->present = c != NULL;
	if (!c)
		return;
	m->type = c->type;
	m->ival = VJ(c)->ival;
	for (i = 0; i <= VJ_SLEN; i++)
		m->s[i] = VJ(c)->s[i];
}

void vf_dump_hook(unsigned call_no, const json_t *tree, size_t flags, const char *text)
{
	struct dsnap *d = (call_no == 0) ? &dh : &dp;
	unsigned i;

	__CPROVER_assert(call_no < 2, "harness: at most two dumps per generate");
	d->called = 1;
	d->len = (unsigned)strlen(text);
	for (i = 0; i <= VJ_DUMPLEN; i++)
		d->text[i] = (i <= d->len) ? text[i] : '\0';
	if (call_no == 0) {
		snap_member(&d->alg, tree, "alg");
		snap_member(&d->typ, tree, "typ");
		snap_member(&d->hx, tree, "hx");
	} else {
		snap_member(&d->iat, tree, "iat");
		snap_member(&d->nbf, tree, "nbf");
		snap_member(&d->exp, tree, "exp");
		snap_member(&d->cx, tree, "cx");
	}
	/* the printer is an oracle: the only thing libjwt decides about the text is the flag word.
	 * Anything beyond SORT_KEYS|COMPACT (precision, ASCII escaping, embedding...) changes how
	 * values are written and thereby what a checker reads back. */
	PROP(flags == (JSON_SORT_KEYS | JSON_COMPACT),
	     "C05/C10: token JSON is serialised canonically (sorted keys, compact, full precision: no other dump flag)");
}

/* ------------------------------------------------------------------ callback */
static int cb_ret, cb_setkey, cb_setalg, cb_edit;
static const jwk_item_t *cb_key;
static jwt_alg_t cb_alg;
static unsigned cb_calls;
static long cb_ival;

static int the_cb(jwt_t *jwt, jwt_config_t *config)
{
	cb_calls++;
	if (cb_setkey)
		config->key = cb_key;
	if (cb_setalg)
		config->alg = cb_alg;
	if (cb_edit) {
		/* per-token edits: add a claim and a header to the object being generated */
		jwt_value_t jv;
		jwt_set_SET_INT(&jv, "cx", cb_ival);
		jv.replace = 1;
		jwt_claim_set(jwt, &jv);
		jwt_set_SET_INT(&jv, "hx", cb_ival);
		jv.replace = 1;
		jwt_header_set(jwt, &jv);
	}
	return cb_ret;
}

static void havoc_key(jwk_item_t *k)
{
	unsigned a = nondet_uint(), t = nondet_uint();

	memset(k, 0, sizeof(*k));
	__CPROVER_assume(a <= JWT_ALG_INVAL);
	__CPROVER_assume(t >= JWK_KEY_TYPE_EC && t <= JWK_KEY_TYPE_OCT);
	k->alg = (jwt_alg_t)a;
	k->kty = (jwk_key_type_t)t;
	k->is_private_key = nondet_bool();
	k->bits = nondet_size_t();
	if (k->kty == JWK_KEY_TYPE_OCT) {
		size_t n = nondet_size_t();
		__CPROVER_assume(n <= (((size_t)-1) >> 3));
		k->provider = JWT_CRYPTO_OPS_ANY;
		k->oct.key = octkey;
		k->oct.len = n;
		k->bits = n * 8;
		k->is_private_key = 1;          /* import sets it for every oct key */
	} else {
		k->provider = JWT_CRYPTO_OPS_OPENSSL;
		k->provider_data = nondet_ptr();
	}
}

struct cfg_snap {
	jwt_alg_t alg;
	const jwk_item_t *key;
	json_t *payload, *headers;
	jwt_claims_t claims;
	jwt_callback_t cb;
	void *cb_ctx;
	time_t exp, nbf;
};

static void snap_cfg(struct cfg_snap *s, const jwt_builder_t *c)
{
	s->alg = c->c.alg; s->key = c->c.key; s->payload = c->c.payload; s->headers = c->c.headers;
	s->claims = c->c.claims; s->cb = c->c.cb; s->cb_ctx = c->c.cb_ctx; s->exp = c->c.exp; s->nbf = c->c.nbf;
}

static int same_cfg(const struct cfg_snap *s, const jwt_builder_t *c)
{
	return s->alg == c->c.alg && s->key == c->c.key && s->payload == c->c.payload &&
	       s->headers == c->c.headers && s->claims == c->c.claims && s->cb == c->c.cb &&
	       s->cb_ctx == c->c.cb_ctx && s->exp == c->c.exp && s->nbf == c->c.nbf;
}

#define OUTMAX 24

int main(void)
{
	jwt_builder_t *b;
	int have_key, have_cb, setkey_ret;
	jwt_alg_t cfg_alg;
	/* what the application configured */
	int iat_on = 1, nbf_on = 0, exp_on = 0;
	long nbf_off = 0, exp_off = 0;
	int app_typ, app_alg, app_iat, app_exp;
	long app_iat_val, app_exp_val;
	char app_typ_val[3];
	struct cfg_snap before;
	json_t *hcopy, *pcopy;
	char *out;
	/* effective configuration */
	int eff_have_key;
	const jwk_item_t *eff_key;
	jwt_alg_t eff_alg, pinned;
	jwt_value_t jv;

	vf_cls = VF_CLS_BUILDER;
	vf_install_alloc();
	b = jwt_builder_new();
	__CPROVER_assume(b != NULL);
	vf_cls = VF_CLS_JWT;

	PROP(b->c.claims == JWT_CLAIM_IAT && b->c.exp == 0 && b->c.nbf == 0 && b->c.key == NULL && b->c.alg == JWT_ALG_NONE,
	     "C10: a new builder adds iat only, has no key and no algorithm");

	havoc_key(&key);
	havoc_key(&key2);

	/* ---- key/alg by setkey ---- */
	have_key = nondet_bool();
	{
		unsigned a = nondet_uint();
		__CPROVER_assume(a <= JWT_ALG_INVAL);
		cfg_alg = (jwt_alg_t)a;
	}
#if defined(PROP_C02) || defined(PROP_C03)
	/* setkey as one step from an arbitrary earlier pin */
	{
		unsigned pa = nondet_uint();
		__CPROVER_assume(pa < JWT_ALG_INVAL);
		prior_alg = (jwt_alg_t)pa;
		prior_key = nondet_bool() ? &key2 : NULL;
		b->c.alg = prior_alg;
		b->c.key = prior_key;
	}
#endif
	setkey_ret = jwt_builder_setkey(b, cfg_alg, have_key ? &key : NULL);
#if defined(PROP_C02) || defined(PROP_C03)
	PROP((setkey_ret == 0) == (ref_setkey_admits(cfg_alg, have_key, key.alg) && (!have_key || key.is_private_key)),
	     "C02: builder setkey admits exactly the documented table, private keys only");
	PROP(setkey_ret == 0 || (b->c.key == prior_key && b->c.alg == prior_alg),
	     "C02/C03: a refused setkey leaves the previously given key and algorithm in place");
	PROP(setkey_ret != 0 || (b->c.key == (have_key ? &key : NULL) && b->c.alg == cfg_alg),
	     "C02: an admitted setkey stores exactly what was given");
	REACH(setkey_ret != 0 && prior_key != NULL, "setkey refused on a builder that already holds a key");
#endif
	if (setkey_ret) {
		b->c.key = NULL;
		b->c.alg = JWT_ALG_NONE;
#ifdef PROP_C14
		PROP(jwt_builder_error(b) && jwt_builder_error_msg(b)[0] != '\0', "C14: a refused setkey is reported with a message");
#endif
		have_key = 0;
		cfg_alg = JWT_ALG_NONE;
		jwt_builder_error_clear(b);
	}

	/* ---- content and time configuration (a short symbolic history) ---- */
	if (nondet_bool()) {
		iat_on = nondet_bool();
		jwt_builder_enable_iat(b, iat_on);
	}
	if (nondet_bool()) {
		nbf_off = nondet_long();
		__CPROVER_assume(nbf_off >= -(1L << 40) && nbf_off <= (1L << 40));
		PROP(jwt_builder_time_offset(b, JWT_CLAIM_NBF, nbf_off) == 0, "C10: time_offset(nbf) succeeds");
		nbf_on = nbf_off > 0;
	}
	if (nondet_bool()) {
		exp_off = nondet_long();
		__CPROVER_assume(exp_off >= -(1L << 40) && exp_off <= (1L << 40));
		PROP(jwt_builder_time_offset(b, JWT_CLAIM_EXP, exp_off) == 0, "C10: time_offset(exp) succeeds");
		exp_on = exp_off > 0;
	}
	app_typ = nondet_bool();
	app_alg = nondet_bool();
	app_iat = nondet_bool();
	app_exp = nondet_bool();
#ifdef C17_SIMPLE
	/* fault-injection scenario: one application claim, no application headers, no callback */
	app_typ = app_alg = app_iat = 0;
#endif
	app_iat_val = nondet_long();
	app_exp_val = nondet_long();
	app_typ_val[0] = nondet_char();
	app_typ_val[1] = nondet_char();
	app_typ_val[2] = '\0';
	__CPROVER_assume(app_typ_val[0] > 0 && app_typ_val[1] > 0);
	if (app_typ) {
		jwt_set_SET_STR(&jv, "typ", app_typ_val);
		PROP(jwt_builder_header_set(b, &jv) == JWT_VALUE_ERR_NONE, "C10: header_set(typ) succeeds");
	}
	if (app_alg) {
		jwt_set_SET_STR(&jv, "alg", "zz");
		PROP(jwt_builder_header_set(b, &jv) == JWT_VALUE_ERR_NONE, "C10: header_set(alg) succeeds");
	}
	if (app_iat) {
		jwt_set_SET_INT(&jv, "iat", app_iat_val);
		PROP(jwt_builder_claim_set(b, &jv) == JWT_VALUE_ERR_NONE, "C10: claim_set(iat) succeeds");
	}
	if (app_exp) {
		jwt_set_SET_INT(&jv, "exp", app_exp_val);
		PROP(jwt_builder_claim_set(b, &jv) == JWT_VALUE_ERR_NONE, "C10: claim_set(exp) succeeds");
	}

	/* ---- callback ---- */
	have_cb = nondet_bool();
#ifdef C17_SIMPLE
	have_cb = 0;
#endif
	cb_ret = nondet_int();
	cb_setkey = nondet_bool();
	cb_setalg = nondet_bool();
	cb_edit = nondet_bool();
	cb_ival = nondet_long();
	cb_key = nondet_bool() ? &key2 : NULL;
	{
		unsigned a = nondet_uint();
		__CPROVER_assume(a <= JWT_ALG_INVAL);
		cb_alg = (jwt_alg_t)a;
	}
	if (have_cb)
		__CPROVER_assume(jwt_builder_setcb(b, the_cb, NULL) == 0);

	/* effective key: what the application handed over, by setkey or from its callback */
	eff_have_key = have_key;
	eff_key = have_key ? &key : NULL;
	/* the callback is shown the algorithm already resolved from the setkey configuration
	 * (explicit alg, else the key's own): leaving config->alg alone means choosing that one */
	eff_alg = ref_pinned(cfg_alg, have_key, key.alg);
	if (have_cb) {
		if (cb_setkey) {
			eff_key = cb_key;
			eff_have_key = cb_key != NULL;
		}
		if (cb_setalg)
			eff_alg = cb_alg;
	}
	pinned = eff_have_key ? ref_pinned(eff_alg, 1, eff_key->alg) : eff_alg;

#ifdef DIRTY_PRESTATE
	b->error = nondet_int();
	b->error_msg[0] = nondet_char();
	b->error_msg[1] = '\0';
#endif
	vf_now = nondet_long();
	__CPROVER_assume(vf_now >= 0 && vf_now <= (1L << 61));
	hcopy = json_deep_copy(b->c.headers);
	pcopy = json_deep_copy(b->c.payload);
	snap_cfg(&before, b);

#ifdef PROP_C18
	vf_cls = VF_CLS_BUILDER;
	b2 = jwt_builder_new();
	__CPROVER_assume(b2 != NULL);
	vf_cls = VF_CLS_JWT;
	jwt_builder_setkey(b2, cfg_alg, have_key ? &key : NULL);
	b2->error = nondet_int();
	b2_before = *b2;
	/* fields the library has no business writing get arbitrary values, so that a write of any
	 * constant is visible */
	key.error = nondet_int();
	key.error_msg[0] = nondet_char();
	key.use = (jwk_pub_key_use_t)nondet_uint();
	key.key_ops = (jwk_key_op_t)nondet_uint();
	key_before = key;
	{
		unsigned i;
		for (i = 0; i < 4; i++)
			oct_before[i] = octkey[i] = nondet_uchar();
	}
	c18_havoc();
	c18_snapshot();
#endif
#ifdef FAULT_K
	vf_alloc_no = 0;                 /* concrete request index from here on */
	vf_fail_at = FAULT_K;
#endif
	/* ================================================================= the call */
	out = jwt_builder_generate(b);
	/* ================================================================= */

#if defined(PROP_C10) || defined(PROP_C13)
	PROP(same_cfg(&before, b), "C10/C13: generate leaves key, alg, flags, offsets and callback of the builder unchanged");
	PROP(vj_equal_copy(hcopy, b->c.headers) && vj_equal_copy(pcopy, b->c.payload),
	     "C10/C13: generate (and its callback) leave the builder's headers and claims unchanged");
#endif

#ifdef PROP_C18
	c18_check();
	PROP(b2->c.alg == b2_before.c.alg && b2->c.key == b2_before.c.key && b2->c.payload == b2_before.c.payload &&
	     b2->c.headers == b2_before.c.headers && b2->c.claims == b2_before.c.claims && b2->c.cb == b2_before.c.cb &&
	     b2->c.exp == b2_before.c.exp && b2->c.nbf == b2_before.c.nbf && b2->error == b2_before.error &&
	     b2->error_msg[0] == b2_before.error_msg[0], "C18: another builder object is not touched by the call");
	PROP(key.pem == key_before.pem && key.provider == key_before.provider && key.oct.key == key_before.oct.key &&
	     key.oct.len == key_before.oct.len && key.is_private_key == key_before.is_private_key && key.bits == key_before.bits &&
	     key.error == key_before.error && key.kty == key_before.kty && key.alg == key_before.alg && key.kid == key_before.kid &&
	     key.json == key_before.json && key.curve[0] == key_before.curve[0] && key.error_msg[0] == key_before.error_msg[0],
	     "C18: the shared key item is only read");
	PROP(octkey[0] == oct_before[0] && octkey[1] == oct_before[1] && octkey[2] == oct_before[2] && octkey[3] == oct_before[3],
	     "C18: shared key material is only read");
	REACH(out != NULL && pv_hmac_calls + pv_pem_calls == 1, "signed token generated");
	REACH(out == NULL, "generate failed");
#endif

#ifdef PROP_C17
	PROP((out == NULL) == (jwt_builder_error(b) != 0), "C17: under an allocation fault generate still returns NULL exactly when the error flag is set");
	REACHF(vf_faulted && out == NULL, "fault injected and reported");
	REACHF(vf_faulted && out != NULL, "fault injected, token unaffected");
#endif

#ifdef PROP_C13
	REACH(out != NULL && have_cb && cb_edit, "token generated with an editing callback");
	REACH(out == NULL && have_cb && cb_ret != 0, "generate failed in the callback");
	REACH(out == NULL && pv_hmac_calls + pv_pem_calls == 1, "generate failed on the key");
#endif

#ifdef PROP_C14
	PROP((out == NULL) == (jwt_builder_error(b) != 0), "C14: generate returns NULL exactly when the builder error flag is set");
	if (out == NULL)
		PROP(jwt_builder_error_msg(b)[0] != '\0', "C14: a failed generate carries a non-empty message");
	REACH(out != NULL, "token generated");
	REACH(out == NULL && have_cb && cb_ret != 0, "callback failure");
	REACH(out == NULL && pv_hmac_calls + pv_pem_calls == 1, "signing failure");
#endif

	if (out != NULL) {
		char expect[OUTMAX + 1];
		unsigned n = 0, q, d1, d2, same = 1, outlen;
		int is_signed = pv_hmac_calls + pv_pem_calls > 0;

		/* reference serialisation: b64url(dump(H)) "." b64url(dump(P)) "." b64url(sig) */
		n += ref_b64url_encode((const unsigned char *)dh.text, dh.len, VJ_DUMPLEN, expect + n);
		d1 = n;
		expect[n++] = '.';
		n += ref_b64url_encode((const unsigned char *)dp.text, dp.len, VJ_DUMPLEN, expect + n);
		d2 = n;
		expect[n++] = '.';
		if (is_signed)
			n += ref_b64url_encode(pv_s_out, pv_s_outlen, PV_MACLEN, expect + n);
		expect[n] = '\0';
		outlen = (unsigned)strlen(out);
		for (q = 0; q < OUTMAX; q++)
			if (q < n && (q >= outlen || out[q] != expect[q]))
				same = 0;
		(void)d1; (void)d2;

#ifdef PROP_C05
		/* what a checker will parse is what was serialised here: both trees dumped, with exactly
		 * the canonical flag word (asserted in vf_dump_hook), alg = the algorithm used */
		PROP(dh.called && dp.called, "C05: header and payload are both serialised into the token");
		PROP(dh.alg.present && dh.alg.type == JSON_STRING && ref_str_alg(dh.alg.s) == (is_signed ? pv_s_alg : JWT_ALG_NONE),
		     "C05: the alg header names the algorithm the token was signed with");
		/* the members the library adds are the ones a checker then reads and judges: a token whose
		 * exp is not now + offset (offset > 0) or whose nbf is not now + offset is not the token the
		 * builder was told to make - and, truncated into the past, is refused by the matching checker */
		if (iat_on)
			PROP(dp.iat.present && dp.iat.type == JSON_INTEGER && dp.iat.ival == vf_now, "C05: the iat delivered is now");
		if (nbf_on)
			PROP(dp.nbf.present && dp.nbf.type == JSON_INTEGER && dp.nbf.ival == vf_now + nbf_off, "C05: the nbf delivered is now + offset");
		if (exp_on)
			PROP(dp.exp.present && dp.exp.type == JSON_INTEGER && dp.exp.ival == vf_now + exp_off && dp.exp.ival > vf_now,
			     "C05: the exp delivered is now + offset, in the future (the matching checker accepts the fresh token)");
		REACH(is_signed, "signed token serialised");
		REACH(exp_on && exp_off > (1L << 31), "exp offset beyond 32 bits");
#endif
#ifdef PROP_C10
		PROP(dh.called && dp.called, "C10: header and payload were both serialised");
		PROP(outlen == n && same,
		     "C10: token is base64url(header JSON).base64url(payload JSON).base64url(signature), unpadded");
		if (is_signed) {
			unsigned m = 0, ok = 1;
			PROP(pv_hmac_calls + pv_pem_calls == 1 && pv_s_ok, "C10: exactly one successful signing operation");
			PROP(pv_s_len == d2, "C10: signing input is exactly header.payload (length)");
			for (m = 0; m < PV_STRMAX; m++)
				if (m < d2 && pv_s_copy[m] != expect[m])
					ok = 0;
			PROP(ok, "C10: signing input is exactly header.payload (bytes)");
		}
		/* header content */
		PROP(dh.alg.present && dh.alg.type == JSON_STRING && ref_str_alg(dh.alg.s) == (is_signed ? pv_s_alg : JWT_ALG_NONE),
		     "C10: alg header is forced to the algorithm actually used");
		if (app_typ)
			PROP(dh.typ.present && dh.typ.type == JSON_STRING && dh.typ.s[0] == app_typ_val[0] && dh.typ.s[1] == app_typ_val[1] && dh.typ.s[2] == '\0',
			     "C10: a typ header set by the application is kept");
		else if (is_signed)
			PROP(dh.typ.present && dh.typ.type == JSON_STRING && ref_streq(dh.typ.s, "JWT"), "C10: typ defaults to JWT on signed tokens");
		else
			PROP(!dh.typ.present, "C10: no typ header is invented for unsigned tokens");
		/* payload content */
		if (iat_on)
			PROP(dp.iat.present && dp.iat.type == JSON_INTEGER && dp.iat.ival == vf_now, "C10: iat = now when enabled, overriding a builder claim");
		else if (app_iat)
			PROP(dp.iat.present && dp.iat.type == JSON_INTEGER && dp.iat.ival == app_iat_val, "C10: with iat disabled the builder's own iat claim is kept");
		else
			PROP(!dp.iat.present, "C10: no iat when disabled and not set");
		if (nbf_on)
			PROP(dp.nbf.present && dp.nbf.type == JSON_INTEGER && dp.nbf.ival == vf_now + nbf_off, "C10: nbf = now + offset when enabled");
		else
			PROP(!dp.nbf.present, "C10: no nbf when the offset is <= 0 or unset");
		if (exp_on)
			PROP(dp.exp.present && dp.exp.type == JSON_INTEGER && dp.exp.ival == vf_now + exp_off, "C10: exp = now + offset when enabled, overriding a builder claim");
		else if (app_exp)
			PROP(dp.exp.present && dp.exp.type == JSON_INTEGER && dp.exp.ival == app_exp_val, "C10: with exp disabled the builder's own exp claim is kept");
		else
			PROP(!dp.exp.present, "C10: no exp when disabled and not set");
		if (have_cb && cb_edit)
			PROP(dp.cx.present && dp.cx.ival == cb_ival && dh.hx.present && dh.hx.ival == cb_ival, "C10: edits made by the callback are in this token");
		else
			PROP(!dp.cx.present && !dh.hx.present, "C10: nothing the application did not ask for is added");
		if (is_signed)
			PROP(pv_s_key && pv_s_key->is_private_key, "C10: signing with a public-only key is refused");
		REACH(is_signed && exp_on && app_exp, "signed token with exp overriding a builder claim");
		REACH(!is_signed, "unsigned token");
		REACH(is_signed && have_cb && cb_edit && app_typ, "signed, callback-edited, custom typ");
		REACH(is_signed && !iat_on && app_iat, "signed with iat disabled and own iat");
#endif
#ifdef PROP_C02
		if (is_signed) {
			PROP(pv_s_key == eff_key, "C02: signed with the key the application configured");
			PROP(pv_s_alg == pinned && pinned != JWT_ALG_NONE && pinned < JWT_ALG_INVAL, "C02: signed under the pinned algorithm");
			PROP(dh.alg.present && ref_str_alg(dh.alg.s) == pinned, "C02: alg header equals the pinned algorithm");
			PROP(ref_setkey_admits(eff_alg, eff_have_key, eff_key->alg), "C02: effective key/alg pair is inside the setkey table");
			if (pv_hmac_calls)
				PROP(pv_s_key->kty == JWK_KEY_TYPE_OCT, "C02: HS* signed only with an oct key");
			if (pv_pem_calls)
				PROP(pv_s_key->kty != JWK_KEY_TYPE_OCT && ref_alg_is_asym(pv_s_alg), "C02: asymmetric algorithm never signed with an oct key");
		}
		REACH(is_signed && have_cb && cb_setkey && !cb_setalg, "signed with a callback-selected key");
		REACH(is_signed && cfg_alg == JWT_ALG_NONE && !have_cb, "signed under the key's own alg");
#endif
#ifdef PROP_C03
		if (eff_have_key) {
			PROP(is_signed && outlen > d2 + 1, "C03: a builder that was given a key never emits an unsigned token");
			PROP(!(dh.alg.present && ref_str_alg(dh.alg.s) == JWT_ALG_NONE), "C03: a builder that was given a key never writes alg none");
		} else {
			PROP(!is_signed && outlen == d2 + 1 && out[outlen - 1] == '.', "C03: a builder without key emits an empty third segment");
			PROP(dh.alg.present && dh.alg.type == JSON_STRING && ref_streq(dh.alg.s, "none"), "C03: a builder without key writes alg none");
		}
		REACH(eff_have_key && have_cb && cb_setkey && !cb_setalg, "token from a callback that sets only the key");
		REACH(!eff_have_key, "token from a keyless builder");
		REACH(eff_have_key && !have_cb, "token from setkey");
#endif
	}
	return 0;
}
