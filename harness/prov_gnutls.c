/* Provider layer, GnuTLS: libjwt/gnutls/sign-verify.c executed for real over M5.
 *   -DSIDE_VERIFY  gnutls_verify_sha_pem for all 11 asymmetric algorithms x any pk algorithm of
 *                  the key x any signature of 0..SIGMAX bytes (C01, C12 contract)
 *   -DSIDE_SIGN_EC gnutls_sign_sha_pem, EC branch: DER (r, s) -> fixed-width r||s for every
 *                  minimal-length r, s (C05)
 *   -DSIDE_SIGN    non-EC sign paths and HMAC (C05/C12: output is the primitive's output)
 */
#include <string.h>
#include <gnutls/gnutls.h>
#include <gnutls/abstract.h>
#include "vf.h"
#include "ref.h"

/* C18: every static-lifetime object of the provider unit (list generated from the goto symbol
 * table on every run, vf/c18.py) keeps its value across a sign/verify call */
#ifdef PROP_C18
#include "c18g_gen.h"
static int c18_armed;
#define C18_BEGIN() do { c18_havoc(); c18_snapshot(); c18_armed = 1; } while (0)
#define C18_END() do { c18_check(); c18_armed = 0; } while (0)
/* observation points: every call out to the crypto library (stubs M4/M5) and to the other
 * provider happens with all process-wide state as it was on entry - a transient write (set,
 * call, restore) is visible to other threads exactly there */
void vf_c18_observe(void) { if (c18_armed) c18_check(); }
#else
#define C18_BEGIN() ((void)0)
#define C18_END() ((void)0)
#endif
#include "gnutls_stubs.h"

json_t *vf_parse(unsigned call_no, const char *buf, size_t len, size_t flags) { return NULL; }
void vf_dump_hook(unsigned call_no, const json_t *tree, size_t flags, const char *text) { }

extern struct jwt_crypto_ops jwt_gnutls_ops;
/* the ops table references the OpenSSL JWK parser, which is not part of this layer */
int openssl_process_eddsa(json_t *jwk, jwk_item_t *item) { return -1; }
int openssl_process_rsa(json_t *jwk, jwk_item_t *item) { return -1; }
int openssl_process_ec(json_t *jwk, jwk_item_t *item) { return -1; }
void openssl_process_item_free(jwk_item_t *item) { }
#ifdef PROP_C18
/* jwt_init (a constructor in jwt-crypto-ops.c) consults JWT_CRYPTO: unset here, the provider is
 * selected explicitly in setup() */
char *getenv(const char *name) { return NULL; }
/* C18 queries link the real libjwt/jwt-crypto-ops.c (it owns jwt_ops and the provider table); the
 * other provider is a stub whose entry points are observation points */
static int other_verify(jwt_t *jwt, const char *head, unsigned int head_len, unsigned char *sig, int sig_len) { vf_c18_observe(); return nondet_int(); }
static int other_sign(jwt_t *jwt, char **out, unsigned int *len, const char *str, unsigned int str_len) { vf_c18_observe(); return 1; }
struct jwt_crypto_ops jwt_openssl_ops = { .name = "openssl", .provider = JWT_CRYPTO_OPS_OPENSSL,
	.sign_sha_hmac = other_sign, .sign_sha_pem = other_sign, .verify_sha_pem = other_verify };
#else
struct jwt_crypto_ops *jwt_ops = &jwt_gnutls_ops;
#endif

static jwk_item_t key;
static jwt_t jwt;
static char pem[] = "PEM";

#ifndef SIGMAX
#define SIGMAX 134
#endif

static int want_sign_algo(jwt_alg_t a, int pk)
{
	switch (a) {
	case JWT_ALG_RS256: return GNUTLS_SIGN_RSA_SHA256;
	case JWT_ALG_RS384: return GNUTLS_SIGN_RSA_SHA384;
	case JWT_ALG_RS512: return GNUTLS_SIGN_RSA_SHA512;
	case JWT_ALG_PS256: return GNUTLS_SIGN_RSA_PSS_SHA256;
	case JWT_ALG_PS384: return GNUTLS_SIGN_RSA_PSS_SHA384;
	case JWT_ALG_PS512: return GNUTLS_SIGN_RSA_PSS_SHA512;
	case JWT_ALG_ES256: return GNUTLS_SIGN_ECDSA_SHA256;
	case JWT_ALG_ES384: return GNUTLS_SIGN_ECDSA_SHA384;
	case JWT_ALG_ES512: return GNUTLS_SIGN_ECDSA_SHA512;
	case JWT_ALG_EDDSA: return pk == GNUTLS_PK_EDDSA_ED448 ? GNUTLS_SIGN_EDDSA_ED448 : GNUTLS_SIGN_EDDSA_ED25519;
	default: return -1;
	}
}

static unsigned field_bytes(jwt_alg_t a)
{
	return a == JWT_ALG_ES384 ? 48 : a == JWT_ALG_ES512 ? 66 : 32;
}

static int is_es(jwt_alg_t a)
{
	return a == JWT_ALG_ES256 || a == JWT_ALG_ES256K || a == JWT_ALG_ES384 || a == JWT_ALG_ES512;
}

static void setup(void)
{
#ifdef PROP_C18
	jwt_ops = &jwt_gnutls_ops;
#endif
	unsigned a = nondet_uint();

	vf_install_alloc();
	memset(&key, 0, sizeof(key));
	memset(&jwt, 0, sizeof(jwt));
	__CPROVER_assume(a > JWT_ALG_HS512 && a < JWT_ALG_INVAL);
	jwt.alg = (jwt_alg_t)a;
	jwt.key = &key;
	key.kty = JWK_KEY_TYPE_EC;               /* any non-oct kind: the core layer guarantees it */
	__CPROVER_assume(key.kty != JWK_KEY_TYPE_OCT);
	key.bits = nondet_size_t();
	/* the core layer (C09 gate) lets the provider be reached only at or above the floor */
	__CPROVER_assume(ref_floor_ok(jwt.alg, key.bits));
	key.pem = nondet_bool() ? pem : NULL;
	key.provider = JWT_CRYPTO_OPS_OPENSSL;
	key.provider_data = &key;
	vg_expected_pem = pem;
	vg_key_pk = nondet_int();
}

#ifdef SIDE_VERIFY
int main(void)
{
	static const char head[] = "ab.cd";
	static unsigned char sig[SIGMAX];
	int sig_len = nondet_int(), r, accepted;
	unsigned i;

	setup();
	__CPROVER_assume(sig_len >= 0 && sig_len <= SIGMAX);
	for (i = 0; i < SIGMAX; i++)
		sig[i] = nondet_uchar();

	C18_BEGIN();
	r = jwt_gnutls_ops.verify_sha_pem(&jwt, head, 5, sig, sig_len);
	C18_END();
	/* the core layer accepts iff the return value is 0 and the per-call error flag is clear */
	accepted = (r == 0 && jwt.error == 0);

	if (accepted) {
		PROP(vg_verify_calls == 1 && vg_v_valid, "C01: GnuTLS accepted => gnutls_pubkey_verify_data2 was consulted once and said valid");
		PROP(vg_v_key_from_pem, "C01: verified with the key imported from the configured item's PEM");
		PROP(vg_v_algo == want_sign_algo(jwt.alg, vg_key_pk), "C01: verified under the signature algorithm the token algorithm prescribes");
		PROP(vg_v_data == (const unsigned char *)head && vg_v_data_len == 5, "C01: verified over exactly the bytes handed in");
		PROP(jwt.alg != JWT_ALG_ES256K, "C12: ES256K is refused under GnuTLS");
		if (is_es(jwt.alg)) {
			unsigned w = field_bytes(jwt.alg), same = 1;
			PROP(vg_encode_calls == 1 && vg_sig_is_encoded, "C01: ECDSA verified on the re-encoded (r, s)");
			PROP((unsigned)sig_len == 2 * w && 8 * w >= key.bits && key.bits + 7 >= 8 * w,
			     "C01: ECDSA r||s length equals twice the field size of the key");
			PROP(vg_r_len == w && vg_s_len == w, "C01: r and s are each one field element wide");
			for (i = 0; i < VG_IMAX; i++)
				if (i < w && (vg_r[i] != sig[i] || vg_s[i] != sig[w + i]))
					same = 0;
			PROP(same, "C01: r and s are the two halves of the signature, unchanged");
		} else {
			PROP(vg_v_sig == sig && vg_v_sig_len == (unsigned)sig_len, "C01: verified on exactly the signature bytes handed in");
		}
	}
	/* C12 contract shared with the OpenSSL layer: a primitive that says invalid is never accepted */
	if (vg_verify_calls && !vg_v_valid)
		PROP(!accepted, "C12: a signature the primitive rejects is rejected");
	if (!vg_import_failed)
		PROP(vg_live_handles == 0, "C06: every GnuTLS key handle is released (paths on which GnuTLS itself did not fail)");
	PROP(vg_der_live == 0, "C06: the re-encoded ECDSA signature (gnutls_encode_rs_value) is released on every path, accepted or rejected");
	REACH(accepted && jwt.alg == JWT_ALG_ES384, "ES384 accepted");
	REACH(accepted && jwt.alg == JWT_ALG_PS256 && vg_key_pk == GNUTLS_PK_RSA, "PS256 accepted with a plain RSA key");
	REACH(accepted && jwt.alg == JWT_ALG_EDDSA && vg_key_pk == GNUTLS_PK_EDDSA_ED448, "Ed448 accepted");
	REACH(!accepted && vg_verify_calls == 1, "rejected by the primitive");
	REACH(!accepted && is_es(jwt.alg) && vg_verify_calls == 0 && key.pem, "irregular ECDSA length rejected before the primitive");
	return 0;
}
#endif

#ifdef SIDE_SIGN_EC
int main(void)
{
	static const char str[] = "ab.cd";
	char *out = NULL;
	unsigned int len = 0;
	unsigned w, i;
	int r;

	setup();
	__CPROVER_assume(is_es(jwt.alg));
#ifdef ONLY_ALG
	__CPROVER_assume(jwt.alg == ONLY_ALG);
#endif
	w = field_bytes(jwt.alg);
	vg_width = w;
	C18_BEGIN();
	r = jwt_gnutls_ops.sign_sha_pem(&jwt, &out, &len, str, 5);
	C18_END();
	if (r == 0 && jwt.error == 0) {
		unsigned same = 1;
		unsigned ro = vg_dec_r_len > w ? vg_dec_r_len - w : 0, so = vg_dec_s_len > w ? vg_dec_s_len - w : 0;
		unsigned rp = vg_dec_r_len < w ? w - vg_dec_r_len : 0, sp = vg_dec_s_len < w ? w - vg_dec_s_len : 0;

		PROP(out != NULL && len == 2 * w, "C05: ECDSA signature is exactly twice the field size");
		PROP(vg_sign_calls == 1 && vg_v_key_from_pem, "C05: signed once with the key imported from the item's PEM");
		PROP(vg_s_data == (const unsigned char *)str && vg_s_data_len == 5, "C05: signed exactly the bytes handed in");
		PROP(jwt.alg != JWT_ALG_ES256K, "C12: ES256K is refused under GnuTLS");
		/* out = r left-padded to w bytes || s left-padded to w bytes, as unsigned big-endian */
		for (i = 0; i < VG_IMAX; i++) {
			if (i < w && out) {
				unsigned char er = i < rp ? 0 : vg_dec_r[ro + (i - rp)];
				unsigned char es = i < sp ? 0 : vg_dec_s[so + (i - sp)];
				if ((unsigned char)out[i] != er || (unsigned char)out[w + i] != es)
					same = 0;
			}
		}
		PROP(same, "C05: r and s are copied as fixed-width big-endian integers (leading zeroes added or dropped as needed)");
	} else {
		PROP(out == NULL || jwt.error, "C05: a failed signing hands back no signature");
	}
	if (!vg_import_failed)
		PROP(vg_live_handles == 0, "C06: every GnuTLS key handle is released (paths on which GnuTLS itself did not fail)");
	REACH(r == 0 && vg_dec_r_len == w + 1 && vg_dec_s_len < w - 1, "long r and short s");
	REACH(r == 0 && vg_dec_r_len == 1, "one-byte r");
	REACH(r != 0 && vg_sign_calls == 1, "signing failed after the primitive");
	return 0;
}
#endif

#ifdef SIDE_SIGN
int main(void)
{
	static const char str[] = "ab.cd";
	static unsigned char okey[4];
	char *out = NULL;
	unsigned int len = 0;
	unsigned i;
	int r, hmac = nondet_bool();

	setup();
	if (hmac) {
		unsigned a = nondet_uint();
		__CPROVER_assume(a >= JWT_ALG_HS256 && a <= JWT_ALG_HS512);
		jwt.alg = (jwt_alg_t)a;
		key.kty = JWK_KEY_TYPE_OCT;
		key.provider = JWT_CRYPTO_OPS_ANY;
		key.oct.key = okey;
		key.oct.len = nondet_size_t();
		C18_BEGIN();
		r = jwt_gnutls_ops.sign_sha_hmac(&jwt, &out, &len, str, 5);
		C18_END();
		if (r == 0) {
			PROP(vg_hmac_calls == 1 && out != NULL, "C05: HMAC computed once");
			PROP(vg_hmac_alg == (jwt.alg == JWT_ALG_HS256 ? GNUTLS_MAC_SHA256 : jwt.alg == JWT_ALG_HS384 ? GNUTLS_MAC_SHA384 : GNUTLS_MAC_SHA512),
			     "C05/C12: HMAC uses the hash the algorithm prescribes");
			PROP(len == (jwt.alg == JWT_ALG_HS256 ? 32u : jwt.alg == JWT_ALG_HS384 ? 48u : 64u), "C05: MAC has the hash output length");
			PROP(vg_hmac_key == okey && vg_hmac_keylen == key.oct.len, "C05: HMAC keyed with exactly the item's octets");
			PROP(vg_s_data == (const unsigned char *)str && vg_s_data_len == 5, "C05: MAC over exactly the bytes handed in");
		}
		REACH(r == 0 && jwt.alg == JWT_ALG_HS384, "HS384 MAC");
		return 0;
	}
	__CPROVER_assume(!is_es(jwt.alg));
	C18_BEGIN();
	r = jwt_gnutls_ops.sign_sha_pem(&jwt, &out, &len, str, 5);
	C18_END();
	if (r == 0 && jwt.error == 0) {
		unsigned same = 1;
		int pss = jwt.alg == JWT_ALG_PS256 || jwt.alg == JWT_ALG_PS384 || jwt.alg == JWT_ALG_PS512;
		PROP(vg_sign_calls == 1 && vg_v_key_from_pem, "C05: signed once with the key imported from the item's PEM");
		PROP(vg_s_data == (const unsigned char *)str && vg_s_data_len == 5, "C05: signed exactly the bytes handed in");
		PROP(out != NULL && len == vg_rawsig_len, "C12: deterministic algorithms hand back the primitive's output (length)");
		for (i = 0; i < VG_RAWMAX; i++)
			if (out && i < vg_rawsig_len && (unsigned char)out[i] != vg_rawsig[i])
				same = 0;
		PROP(same, "C12: deterministic algorithms hand back the primitive's output (bytes)");
		PROP(((vg_sign_flags & GNUTLS_PRIVKEY_SIGN_FLAG_RSA_PSS) != 0) == pss, "C05: PSS padding is requested exactly for PS*");
		PROP(vg_sign_dig == (jwt.alg == JWT_ALG_RS256 || jwt.alg == JWT_ALG_PS256 ? GNUTLS_DIG_SHA256 :
				     jwt.alg == JWT_ALG_RS384 || jwt.alg == JWT_ALG_PS384 ? GNUTLS_DIG_SHA384 :
				     jwt.alg == JWT_ALG_EDDSA && vg_key_pk == GNUTLS_PK_EDDSA_ED448 ? GNUTLS_DIG_SHAKE_256 : GNUTLS_DIG_SHA512),
		     "C05: the digest the algorithm prescribes is used");
		if (pss)
			PROP(vg_key_pk == GNUTLS_PK_RSA || vg_key_pk == GNUTLS_PK_RSA_PSS, "C02: PS* signs only with an RSA key");
		else if (jwt.alg == JWT_ALG_EDDSA)
			PROP(vg_key_pk == GNUTLS_PK_EDDSA_ED25519 || vg_key_pk == GNUTLS_PK_EDDSA_ED448, "C02: EdDSA signs only with an Ed25519/Ed448 key");
		else
			PROP(vg_key_pk == GNUTLS_PK_RSA, "C02: RS* signs only with an RSA key");
	}
	if (!vg_import_failed)
		PROP(vg_live_handles == 0, "C06: every GnuTLS key handle is released (paths on which GnuTLS itself did not fail)");
	REACH(r == 0 && jwt.alg == JWT_ALG_PS384, "PS384 signed");
	REACH(r == 0 && jwt.alg == JWT_ALG_EDDSA && vg_key_pk == GNUTLS_PK_EDDSA_ED448, "Ed448 signed");
	return 0;
}
#endif
